"""C19  Building a URL from matched parameters leads back to the same match."""
import re

from hypothesis import strategies as st

from vlib import rules as R
from vlib.core import CheckFailure, load_corpus, fmt_exc

ID = 'C19'
LEVEL = 'exploration'
RULE = ('case = one rule AST (C01 generator plus targeted shapes: look-ahead wildcard + literal + further wildcard, adjacent wildcards, anonymous wildcards, '
        'literal tails) rendered in a generated syntax flavour, and a path constructed from it with per-filter value generators (ints up to 10^20 with leading '
        'zeros and signs, decimal floats up to 15 significant digits, regex-pool texts, multi-segment path values, free text incl. non-ASCII, %, ?, #, spaces). '
        'Only paths the reference matcher (and the router) really match are used: the parameter assignment is what the match produced (converted values; named '
        '-> keyword, anonymous -> positional in order). Oracle: Route.url(*anon, **named) does not raise; on a router holding only that rule resolve(url) '
        'reaches the rule with the same named values; the reference matcher binds the same values for anonymous ones; the literal parts of the rule occur '
        'verbatim and in order (the URL decomposes as L0 v1 L1 v2 ...). Plus: two threads calling url() on the same fresh Route under every single-preemption schedule. Cases with an empty binding are counted, not judged; float texts that str(float) '
        'renders in exponent notation are the open finding K19 (excluded by construction, witness run separately). Non-trivial = >= 1 wildcard; distinct by '
        '(rule text, path).')
ASSUMPTIONS = ['reference matcher vlib/rules.py is trusted (where the router matches a path the reference does not, the router\'s own assignment is round-tripped)', 'empty wildcard bindings are an unspecified zone (counted)',
               'float values >= 1e16 or < 1e-4 in magnitude are excluded from the search (open known finding K19) and counted', 'float values whose matched text url() re-spells (5 -> 5.0, 1.50 -> 1.5) behind a look-ahead wildcard are excluded and counted (open known finding K19-float-respelled-after-lookahead)']


def _val(draw, seg):
    f = seg[2]
    if f == 'int':
        return draw(st.one_of(st.sampled_from(R.VALUE_POOL['int']), st.integers(-10**20, 10**20).map(str), st.integers(0, 10**6).map(lambda i: '00' + str(i))))
    if f == 'float':
        return draw(st.one_of(st.sampled_from(R.VALUE_POOL['float']),
                              st.tuples(st.sampled_from(['', '-']), st.integers(0, 10**9), st.integers(0, 999999), st.integers(0, 6)).map(
                                  lambda t: '%s%d' % (t[0], t[1]) + ('.' + ('%06d' % t[2])[:t[3]] if t[3] else '')),
                              st.integers(0, 10**15).map(str), st.sampled_from(['1234.567', '3.1415926', '1000000', '123456789.125', '0.0001', '99999999999999.5'])))
    if f == 're':
        return draw(st.sampled_from(R.RE_VALUES.get(seg[3], []) * 3 + R.VALUE_POOL['re']))
    if f == 'rex':
        return draw(st.sampled_from(R.RE_VALUES.get(seg[3], []) * 3 + R.VALUE_POOL['rex']))
    if f == 'path':
        return draw(st.one_of(st.sampled_from(R.VALUE_POOL['path']), st.lists(st.sampled_from(['a', 'b', 'end', 'le', 'x.y', 'é', '1']), min_size=1, max_size=4).map('/'.join)))
    return draw(st.one_of(st.sampled_from(R.VALUE_POOL[None]), st.text(st.characters(exclude_categories=['Cs'], exclude_characters='/'), min_size=1, max_size=6),
                          st.sampled_from(['a\rb', '\r', 'x\r', '\ry', 'a\nb', '\t', 'a\r\rb']),
                          # text that Unicode normalisation (NFC / NFKC / case folding) would rewrite
                          st.sampled_from(['e\u0301', 'a\u0308\u0323', '\u2126', '\u212b', '\uf900', '\ufb01', '\u1e9e', 'I\u0307', '\u00c5', 'A\u030a', '\u3000', '\uff21', 'ǅ']),
                          st.sampled_from(['a%20b', 'q?x=1', 'h#f', 'a b', '..', '.', '~', 'a+b', 'a=b&c', 'é', '%', 'a:b', '<x>', '{y}'])))


@st.composite
def case_st(draw):
    kind = draw(st.integers(0, 10))
    if kind == 10:
        # long rules: 8-14 wildcards (mostly anonymous, passed positionally) separated by short literals
        segs = [['lit', '/']]
        for i in range(draw(st.integers(8, 14))):
            f = draw(st.sampled_from([None, 'int', 'int', 'float', 're']))
            nm = None if (f is not None and draw(st.integers(0, 3))) else 'p%d' % i
            segs.append(['w', nm, f, '[a-c]+' if f == 're' else None])
            segs.append(['lit', draw(st.sampled_from(['/', '/', '-', '/x/', '.']))])
        ast = R._fix(segs[:-1] if draw(st.booleans()) else segs)
    elif kind <= 5:
        ast = draw(R.rule_st())
    else:
        # targeted shapes
        la = draw(st.sampled_from([['w', 'p', 'path', None], ['w', 'r', 're', 'pro.+?(?=l)'], ['w', None, 'path', None], ['w', 'q', 're', '.+?(?=/end)']]))
        lit = draw(st.sampled_from(['/end', 'le', '/x/', '-', '/end/', 'l']))
        w2 = draw(R.seg_st().filter(lambda s: s[0] == 'w'))
        pre = draw(st.sampled_from(['/p/', '/', '/a/b-', '/é/']))
        ast = R._fix([['lit', pre], la, ['lit', lit], w2] + draw(st.lists(R.seg_st(), max_size=2)))
        for i, s in enumerate(ast):
            if s[0] == 'w' and s[1] is None and s[2] is None:
                s[1] = 'n%d' % i
    ast = R.merge(ast)
    parts = []
    for s in ast:
        parts.append(s[1] if s[0] == 'lit' else _val(draw, s))
    sibs = [draw(R.derived_rule_st(ast)) for _ in range(draw(st.sampled_from([0, 0, 1, 2])))]
    return {'ast': ast, 'choice': draw(st.lists(st.integers(0, 30), max_size=3)), 'spell': draw(st.integers(0, 1)), 'path': ''.join(parts), 'siblings': sibs,
            'lead': draw(st.sampled_from([0, 0, 0, 1, 2, 3])), 'trail': draw(st.sampled_from([0, 0, 0, 1, 2, 3]))}


def _exp_float(v):
    return isinstance(v, float) and ('e' in repr(v) or 'E' in repr(v) or v != v or v in (float('inf'), float('-inf')))


def _neg_zero_after_wildcard(ast, b):
    """An int wildcard bound to '-0', '-00'... directly after another wildcard: the sign was the only separator and int() drops it."""
    ws = [i for i, s in enumerate(ast) if s[0] == 'w']
    for k, i in enumerate(ws):
        if ast[i][2] == 'int' and re.fullmatch(r'-0+', b[k][1]) and i > 0 and ast[i - 1][0] == 'w':
            return True
    return False


def _int_respelled_digits_after_wildcard(ast, b):
    """An int wildcard bound to a text with non-ASCII decimal digits (which \\d accepts and int() converts) directly after another wildcard: url() writes
    ASCII digits, which the wildcard in front may absorb."""
    ws = [i for i, s in enumerate(ast) if s[0] == 'w']
    for k, i in enumerate(ws):
        if ast[i][2] == 'int' and i > 0 and ast[i - 1][0] == 'w' and any(ch not in '-0123456789' for ch in b[k][1]):
            return True
    return False


def _float_text_after_lookahead(ast, b):
    """A float wildcard bound to a text that url() will not reproduce (str(float(t)) != t, e.g. '5' -> '5.0', '1.50' -> '1.5') that stands after a
    wildcard whose filter looks ahead (path, or re with a look-ahead): the re-spelled number can move the point where that earlier wildcard ends."""
    ws = [i for i, s in enumerate(ast) if s[0] == 'w']
    seen_la = False
    for k, i in enumerate(ws):
        s = ast[i]
        if s[2] == 'float' and seen_la:
            t = b[k][1]
            try:
                if str(float(t)) != t:
                    return True
            except ValueError:
                pass
        if s[2] == 'path' or (s[2] == 're' and '(?=' in (s[3] or '')):
            seen_la = True
    return False


def check_case(ctx, case, witness=False):
    from ombott.router.radirouter import RadiRouter
    ast = R.merge(case['ast'])
    text = R.render(ast, case['choice'], case['spell'])
    if text is None or not R.legal(ast):
        ctx.exclude('not_renderable')
        return
    path = case['path']
    sp = path.strip('/')
    # (leading / trailing slashes are not part of what a rule matches, however many there are)
    path = '/' * case.get('lead', 0) + path + '/' * case.get('trail', 0)
    b = R.match(ast, sp, True)
    if b is None:
        # the reference sees no match. Should the ROUTER nevertheless match the path (C01 judges that), the assignment it produced must
        # still round-trip: 'for all assignments produced by matching a path'
        ctx.count('constructed_path_does_not_match')
        if all(s[0] == 'lit' or s[1] for s in ast):
            from ombott.router.radirouter import RadiRouter as _RR
            rt = _RR()
            try:
                route0 = rt.add(text, 'GET', lambda **kw: kw)
            except Exception:
                return
            ep0, _ = rt.resolve(path, ['GET'])
            if ep0 is not None and all(v != '' for v in ep0[1].values()):
                try:
                    u0 = route0.url(**ep0[1])
                except Exception as e:
                    raise CheckFailure(f'rule {text!r}: the router matches {path!r} with {ep0[1]!r}, and url(**that) raised {type(e).__name__}: {e}')
                ep1, _ = rt.resolve(u0, ['GET'])
                if ep1 is None or ep1[1] != ep0[1]:
                    raise CheckFailure(f'rule {text!r}: the router matches {path!r} with {ep0[1]!r}; url(**that) = {u0!r}, which resolves with {ep1[1] if ep1 else None!r}')
                ctx.count('router_only_match_round_trips')
        return
    if any(t == '' for _, t, _ in b):
        ctx.exclude('unspecified_empty_binding')
        return
    if not witness and any(_exp_float(v) for _, _, v in b):
        ctx.exclude('float_in_exponent_notation(K19)')
        return
    if not witness and _neg_zero_after_wildcard(ast, b):
        ctx.exclude('int_negative_zero_after_wildcard(K19-int-negative-zero)')
        return
    if not witness and _int_respelled_digits_after_wildcard(ast, b):
        ctx.exclude('int_with_non_ascii_digits_after_wildcard(K19-int-unicode-digits-after-wildcard)')
        return
    if not witness and _float_text_after_lookahead(ast, b):
        ctx.exclude('float_respelled_after_lookahead_wildcard(K19-float-respelled-after-lookahead)')
        return
    router = RadiRouter()
    # other rules registered before the one under test (sharing prefixes / wildcard positions with it): whatever they leave in the tree
    # must not change what the rule under test matches and builds
    for sib in case.get('siblings') or ():
        stext = R.render(R.merge(sib), case['choice'], case['spell'])
        if stext is None or not R.legal(R.merge(sib)) or R.pattern_key(R.merge(sib)) == R.pattern_key(ast):
            continue
        try:
            router.add(stext, 'POST', lambda **kw: kw)
            ctx.count('sibling_rule_registered_first')
        except Exception:
            ctx.count('sibling_rule_rejected')
    try:
        route = router.add(text, 'GET', lambda **kw: kw)
    except Exception as e:
        ctx.count('rule_rejected')
        return
    end_point, err = router.resolve(path, ['GET'])
    if end_point is not None and end_point[0].route is not route:
        ctx.count('path_served_by_a_sibling_rule')
        return
    if end_point is None and case.get('siblings') and err and err[0] == 405:
        ctx.count('path_served_by_a_sibling_rule')
        return
    if end_point is None:
        raise CheckFailure(f'rule {text!r}: reference matcher matches {path!r} with {b!r} but the router answers {err[0]}')
    named = R.named(b)
    if end_point[1] != named:
        raise CheckFailure(f'rule {text!r}: {path!r} resolves with {end_point[1]!r}, reference {named!r}')
    anon = [v for n, _, v in b if not n]
    try:
        url = route.url(*anon, **named)
    except Exception as e:
        raise CheckFailure(f'Route({text!r}).url(*{anon!r}, **{named!r}) raised {type(e).__name__}: {e} (assignment produced by matching {path!r})\n{fmt_exc(e)}')
    if not isinstance(url, str):
        raise CheckFailure(f'url() returned {type(url).__name__}')
    # literals verbatim and in order
    # (url() is documented by the suite to return the path without the rule's leading '/')
    lits = [(s[1][1:] if i == 0 else s[1]) if s[0] == 'lit' else None for i, s in enumerate(ast)]
    rx = ''.join(re.escape(t) if t is not None else '(.*)' for t in lits)          # (a rex selector is not part of the built URL)
    if not re.fullmatch(rx, url, re.S) and not re.fullmatch(re.escape('/') + rx, url, re.S):
        raise CheckFailure(f'Route({text!r}).url(*{anon!r}, **{named!r}) = {url!r}: the literal parts {[s[1] for s in ast if s[0] == "lit"]} do not appear verbatim and in order')
    ep2, err2 = router.resolve(url, ['GET'])
    if case.get('siblings') and (ep2 is None or ep2[0].route is not route):
        # the built URL may be claimed by a more specific SIBLING rule of this router (e.g. '012' re-spelled '12' meets a literal '/12...'): the property
        # speaks of the rule itself, so the re-match is judged on a router that holds this rule alone
        alone = RadiRouter()
        alone.add(text, 'GET', lambda **kw: kw)
        ep2, err2 = alone.resolve(url, ['GET'])
        ctx.count('built_url_claimed_by_a_sibling_rule')
    if ep2 is None:
        raise CheckFailure(f'Route({text!r}).url(*{anon!r}, **{named!r}) = {url!r} is not matched by the rule (built from the match of {path!r})')
    if ep2[1] != named or any(type(ep2[1][k]) is not type(named[k]) for k in named):
        raise CheckFailure(f'Route({text!r}).url(...) = {url!r} resolves with {ep2[1]!r}, the assignment was {named!r}')
    b2 = R.match(ast, url.strip('/'), True)
    if b2 is None or [v for _, _, v in b2] != [v for _, _, v in b]:
        raise CheckFailure(f'Route({text!r}).url(*{anon!r}, **{named!r}) = {url!r}: reference matcher binds {b2!r}, the assignment was {b!r}')
    _asked_again(ctx, case, ast, text, route, router, b, anon, named, url)
    nw = sum(1 for s in ast if s[0] == 'w')
    ctx.count('round_trips')
    if anon:
        ctx.count('anonymous_positional')
    if anon and named:
        ctx.count('mixed_positional_and_named')
    for s in ast:
        if s[0] == 'w':
            ctx.count('filter_' + str(s[2]))
    for i, s in enumerate(ast):
        if s[0] == 'w' and i + 1 < len(ast) and ast[i + 1][0] == 'w':
            ctx.count('adjacent_wildcards')
            break
    la = [i for i, s in enumerate(ast) if s[0] == 'w' and (s[2] == 'path' or (s[2] == 're' and '(?=' in s[3]))]
    if any(i + 2 < len(ast) and ast[i + 1][0] == 'lit' and any(t[0] == 'w' for t in ast[i + 2:]) for i in la):
        ctx.count('lookahead_literal_then_wildcard')
    if url.strip('/') != sp:
        ctx.count('url_differs_from_original_path(normalised value)')
    if nw:
        ctx.nontrivial(text + ' ' + path, sample={'rule': text, 'path': path, 'url': url, 'params': {k: repr(v) for k, v in named.items()}, 'positional': [repr(a) for a in anon]})


def _asked_again(ctx, case, ast, text, route, router, b, anon, named, url):
    """The same Route object asked again: with this match's values rotated among the named wildcards that share a filter (keywords written in
    another order), then with the first assignment once more."""
    ws = [s for s in ast if s[0] == 'w']
    if len(named) < 2 or case.get('siblings') or any(s[2] == 'rex' for s in ws) or len(ws) != len(b):
        return
    groups = {}
    for s_, (n, t, v) in zip(ws, b):
        if n:
            groups.setdefault((s_[2], s_[3]), []).append(n)
    g = next((g for g in groups.values() if len(g) >= 2), None)
    if g is None:
        return
    rot = dict(zip(g, g[1:] + g[:1]))
    texts = {n: t for n, t, v in b if n}
    it = iter(b)
    path2 = ''
    for s_ in ast:
        if s_[0] == 'lit':
            path2 += s_[1]
        else:
            n, t, v = next(it)
            path2 += texts[rot[n]] if n in rot else t
    b2 = R.match(ast, path2.strip('/'), True)
    if b2 is None or [t for _, t, _ in b2] == [t for _, t, _ in b]:
        return
    named2 = R.named(b2)
    anon2 = [v for n, _, v in b2 if not n]
    if (any(isinstance(v, float) and _exp_float(v) for _, _, v in b2) or _neg_zero_after_wildcard(ast, b2) or _int_respelled_digits_after_wildcard(ast, b2)
            or _float_text_after_lookahead(ast, b2)):
        ctx.exclude('rotated_assignment_in_a_known_finding_zone(K19)')          # the open findings K19-*: excluded by construction, as in the main round trip
        return
    ep0, _ = router.resolve(path2, ['GET'])
    if ep0 is None or ep0[0].route is not route or ep0[1] != named2:
        ctx.count('rotated_assignment_not_produced_by_a_match(unjudged)')          # the property speaks of assignments that matching a path produced
        return
    kw2 = dict(reversed(list(named2.items())))
    try:
        url2 = route.url(*anon2, **kw2)
        url1 = route.url(*anon, **named)
    except Exception as e:
        raise CheckFailure(f'Route({text!r}).url(*{anon2!r}, **{kw2!r}) after url(*{anon!r}, **{named!r}) raised {type(e).__name__}: {e}')
    ep, _ = router.resolve(url2, ['GET'])
    if ep is None or ep[1] != named2:
        raise CheckFailure(f'Route({text!r}): url(*{anon!r}, **{named!r}) = {url!r}, then url(*{anon2!r}, **{kw2!r}) = {url2!r}, which resolves with {ep and ep[1]!r}')
    if url1 != url:
        raise CheckFailure(f'Route({text!r}).url(*{anon!r}, **{named!r}) = {url!r} the first time and {url1!r} after another assignment was built')
    ctx.count('route_asked_again_with_rotated_values_and_keyword_order')


def _api_names():
    """Every parameter / local variable name used by the functions of the router package that is also a legal wildcard name: a rule may use any of them."""
    import inspect
    import ombott.router.radirouter as m1
    import ombott.router.radidict as m2
    import ombott.router.filter_factory as m3
    import ombott.ombott as m4
    names = set()

    def walk(code):
        names.update(code.co_varnames)
        for c in code.co_consts:
            if inspect.iscode(c):
                walk(c)
    for m in (m1, m2, m3, m4):
        try:
            walk(compile(inspect.getsource(m), m.__file__, 'exec'))
        except Exception:
            pass
    return sorted(n for n in names if re.fullmatch(r'[a-z][a-z0-9_]*', n))


def check_threaded(ctx, case):
    """Two threads build a URL from the same fresh Route object (the first url() call of a route is where lazily built state would
    be created): every single-preemption schedule, both results must round-trip."""
    from ombott.router.radirouter import RadiRouter
    from vlib.sched import Scheduler, BIG
    from checks.c08_threads import relevant
    ast = R.merge(case['ast'])
    text = R.render(ast, case['choice'], case['spell'])
    assigns = []
    for path in case['paths']:
        b = R.match(ast, path.strip('/'), False)
        if b is None:
            raise CheckFailure(f'threaded C19 case: {path!r} does not match {text!r}')
        assigns.append(b)

    def run(schedule):
        router = RadiRouter()
        route = router.add(text, 'GET', lambda **kw: kw)
        res = {}

        def mk(i):
            def fn():
                b = assigns[i]
                res[i] = route.url(*[v for n, _, v in b if not n], **R.named(b))
            return fn
        sc = Scheduler([mk(0), mk(1)], schedule, relevant)
        sc.run()
        for i, e in enumerate(sc.errors):
            if e is not None:
                raise CheckFailure(f'thread {i}: Route({text!r}).url(...) raised {type(e).__name__}: {e} under schedule {schedule}')
        for i in (0, 1):
            b2 = R.match(ast, res[i].strip('/'), False)
            if b2 is None or [v for _, _, v in b2] != [v for _, _, v in assigns[i]]:
                raise CheckFailure(f'thread {i}: Route({text!r}).url(...) = {res[i]!r} while another thread was building a URL from the same route; assignment {assigns[i]!r}; '
                                   f'schedule {schedule}')
        ctx.evals += 1
        ctx.nontrivial('thr:' + text + repr(schedule))
        return sc.yields
    y0 = run([[0, BIG]])[0]
    for k in range(0, y0 + 1):
        run([[0, k], [1, BIG], [0, BIG]])
    ctx.count('threaded_single_preemption_schedules', y0 + 1)


def witness_k19(ctx):
    case = {'ast': [['lit', '/'], ['w', 'x', 'float', None]], 'choice': [1], 'spell': 1, 'path': '/10000000000000000'}
    try:
        check_case(ctx, case, witness=True)
    except CheckFailure as f:
        if "'1e+16'" in str(f) and ctx.known('K19-float-exponent'):
            return
        raise
    ctx.note('K19 witness passes on this tree (finding no longer reproduces)')


def witness_negzero(ctx):
    case = {'ast': [['lit', '/'], ['w', 'a', 'int', None], ['w', 'b', 'int', None]], 'choice': [0], 'spell': 0, 'path': '/12-0'}
    try:
        check_case(ctx, case, witness=True)
    except CheckFailure as f:
        if "= '120' is not matched by the rule" in str(f) and ctx.known('K19-int-negative-zero'):
            return
        raise
    ctx.note('K19-int-negative-zero witness passes on this tree (finding no longer reproduces)')


def witness_int_digits(ctx):
    case = {'ast': [['lit', '/'], ['w', None, 're', '[0-9a-f]{1,3}'], ['w', None, 'int', None]], 'choice': [], 'spell': 0, 'path': '/ff\u0663'}
    try:
        check_case(ctx, case, witness=True)
    except CheckFailure as f:
        if "= 'ff3' is not matched by the rule" in str(f) and ctx.known('K19-int-unicode-digits-after-wildcard'):
            return
        raise
    ctx.note('K19-int-unicode-digits-after-wildcard witness passes on this tree (finding no longer reproduces)')


def witness_float_lookahead(ctx):
    case = {'ast': [['lit', '/'], ['w', None, 'path', None], ['lit', '.'], ['w', 'a', 'float', None]], 'choice': [], 'spell': 0, 'path': '/a/b.1.5'}
    try:
        check_case(ctx, case, witness=True)
    except CheckFailure as f:
        if "= 'a/b.1.5.0' resolves with {'a': 0.0}" in str(f) and ctx.known('K19-float-respelled-after-lookahead'):
            return
        raise
    ctx.note('K19-float-respelled-after-lookahead witness passes on this tree (finding no longer reproduces)')


def run(ctx):
    for name, case in load_corpus(ID):
        ctx.guarded(check_case, case)
        ctx.count('corpus')
    if ctx.shard == 0:
        ctx.guarded(lambda c, _: witness_k19(c), {'witness': 'K19'})
        ctx.guarded(lambda c, _: witness_negzero(c), {'witness': 'K19-int-negative-zero'})
        ctx.guarded(lambda c, _: witness_float_lookahead(c), {'witness': 'K19-float-respelled-after-lookahead'})
        ctx.guarded(lambda c, _: witness_int_digits(c), {'witness': 'K19-int-unicode-digits-after-wildcard'})
        lit = lambda t: ['lit', t]   # noqa
        # size grid: rules with n wildcards (all anonymous / all named / alternating), n = 1..14
        for n in range(1, 15):
            for mode in ('anon', 'named', 'mixed'):
                segs, vals = [lit('/')], []
                for i in range(n):
                    anon = mode == 'anon' or (mode == 'mixed' and i % 2 == 0)
                    f = ['int', 'float', 're'][i % 3]
                    segs.append(['w', None if anon else 'p%d' % i, f, '[a-c]+' if f == 're' else None])
                    segs.append(lit('/' if i % 2 else '-x/'))
                    vals.append({'int': str(100 + i), 'float': '%d.5' % i, 're': 'abc'[: 1 + i % 3]}[f])
                ast = R._fix(segs[:-1])         # (a rule ending in '/' can never match: paths are stripped of trailing slashes)
                path = ''.join(s[1] if s[0] == 'lit' else vals.pop(0) for s in R.merge(ast))
                ctx.guarded(check_case, {'ast': ast, 'choice': [n], 'spell': n % 2, 'path': path})
        ctx.count('wildcard_count_grid')
        # every expression of the pool x each of its sample values x position in the rule (named and anonymous)
        ngrid = 0
        for rx in R.RE_POOL:
            for v in R.RE_VALUES.get(rx, []):
                for nm in ('r', None):
                    w = ['w', nm, 're', rx]
                    for ast, path in (([lit('/rel/'), w, lit('/notes')], '/rel/' + v + '/notes'), ([lit('/rel/'), w], '/rel/' + v), ([lit('/'), w, lit('.txt')], '/' + v + '.txt'),
                                      ([lit('/'), ['w', 'n', 'int', None], lit('/'), w, lit('/'), ['w', 't', None, None]], '/7/' + v + '/tail')):
                        ctx.guarded(check_case, {'ast': R._fix(ast), 'choice': [1], 'spell': 0, 'path': path})
                        ngrid += 1
        ctx.count('regex_pool_grid', ngrid)
        # values spelled in ways Python's own number parsers accept but the filters' masks may not (signs, blanks, underscores), behind another wildcard
        W = lambda n, f=None, a=None: ['w', n, f, a]   # noqa
        for ast, paths in (([lit('/'), W('a', 'int'), W('b', 'int')], ['/1+2', '/1-2', '/+1+2', '/12', '/1 2', '/1_0-3']),
                           ([lit('/v'), W('major', 'int'), W('minor', 'int')], ['/v1+0', '/v1-0', '/v10']),
                           ([lit('/'), W('n', 're', '[a-z0-9]+'), W('d', 'int')], ['/ab+3', '/ab-3', '/ab3']),
                           ([lit('/'), W('x', 'float'), W('y', 'float')], ['/1.5+2.5', '/1.5-2.5', '/.5-.5', '/1+.5']),
                           ([lit('/tz/utc'), W('off', 'int')], ['/tz/utc+3', '/tz/utc-3'])):
            for pth in paths:
                ctx.guarded(check_case, {'ast': R._fix(ast), 'choice': [1], 'spell': 0, 'path': pth})
        # a rule registered after a sibling that spells the same wildcard position with / without a converting filter
        for first, second, paths in (([lit('/item/'), W('id', 'int'), lit('/edit')], [lit('/item/'), W('id'), lit('/view')], ['/item/42/view', '/item/abc/view']),
                                     ([lit('/item/'), W('id'), lit('/view')], [lit('/item/'), W('id', 'int'), lit('/edit')], ['/item/42/edit']),
                                     ([lit('/price/'), W('v', 'float'), lit('/net')], [lit('/price/'), W('v'), lit('/gross')], ['/price/1.50/gross', '/price/x/gross']),
                                     ([lit('/u/'), W('n', 're', '[a-c]+'), lit('/a')], [lit('/u/'), W('n'), lit('/b')], ['/u/abc/b', '/u/zzz/b']),
                                     ([lit('/u/'), W('n', 'path'), lit('/a')], [lit('/u/'), W('n'), lit('/b')], ['/u/x/b']),
                                     # a literal branch that captures a value and then dead-ends, so that the lookup falls back to the rule under test
                                     ([lit('/new/'), W('k', 'int'), lit('/edit')], [lit('/'), W('name'), lit('/'), W('n', 'int'), lit('/view')], ['/new/5/view', '/old/5/view']),
                                     ([lit('/a/'), W('x'), lit('/'), W('y'), lit('/end')], [lit('/'), W('p'), lit('/'), W('q'), lit('/'), W('r'), lit('/fin')], ['/a/1/2/fin']),
                                     ([lit('/s/'), W('f', 'float'), lit('/x')], [lit('/'), W('t'), lit('/'), W('u', 'float'), lit('/y')], ['/s/1.5/y'])):
            for pth in paths:
                for spell in (0, 1):
                    ctx.guarded(check_case, {'ast': R._fix(second), 'choice': [1], 'spell': spell, 'path': pth, 'siblings': [R._fix(first)]})
        ctx.count('sibling_rule_grid')
        # extra slashes at the very start / end of the request path, for rules that begin / end with a wildcard that can hold a slash
        for ast, pth in (([lit('/files/'), W('p', 'path')], '/files/a/b'), ([lit('/'), W('p', 'path'), lit('/raw')], '/a/b/raw'), ([lit('/'), W('p', 're', '.+')], '/a/b'),
                         ([lit('/'), W('x'), lit('/'), W('p', 'path')], '/x/a'), ([lit('/f/'), W('n', 'int')], '/f/7')):
            for lead in (0, 1, 2, 3):
                for trail in (0, 1, 2, 3):
                    ctx.guarded(check_case, {'ast': R._fix(ast), 'choice': [1], 'spell': 0, 'path': pth, 'lead': lead, 'trail': trail})
        ctx.count('edge_slash_grid')
        # literals holding a backslash / characters a rule syntax might treat as escapes; wildcard names an API might use for its own parameters
        for ast, pth in (([lit('/dir\\sub/'), W('n', 'int')], '/dir\\sub/007'), ([lit('/files/'), W('p', 'path'), lit('\\.bak/'), W('n', 'int')], '/files/a/b\\.bak/7'),
                         ([lit('/a\\'), W('x'), lit('\\')], '/a\\tom\\'), ([lit('/q/'), W('query'), lit('/page/'), W('n', 'int')], '/q/tom/page/2'),
                         ([lit('/'), W('self'), lit('/'), W('method'), lit('/'), W('args'), lit('/'), W('kw')], '/a/b/c/d'), ([lit('/'), W('rule'), lit('/'), W('path', 'path')], '/r/a/b'),
                         ([lit('/'), W('anchor'), W('name', 'int')], '/x12')):
            ctx.guarded(check_case, {'ast': R._fix(ast), 'choice': [1], 'spell': 0, 'path': pth})
            ctx.guarded(check_case, {'ast': R._fix(ast), 'choice': [3], 'spell': 1, 'path': pth})
        ctx.count('backslash_and_parameter_name_grid')
        api = _api_names()
        for nm in api:
            ast = [lit('/'), W(nm), lit('/stops/'), W('n', 'int')]
            ctx.guarded(check_case, {'ast': R._fix(ast), 'choice': [1], 'spell': 0, 'path': '/66/stops/7'})
            ast = [lit('/m/'), W(nm, 'path'), lit('/v'), W(nm + '2', 'int')]
            ctx.guarded(check_case, {'ast': R._fix(ast), 'choice': [3], 'spell': 1, 'path': '/m/a/b/v2'})
        ctx.count('wildcards_named_like_the_router_code_own_variables', len(api))
        for ast, pths in (([lit('/copy/'), W('src'), lit('/'), W('dst')], ['/copy/a/b', '/copy/b/a', '/copy/x/x1']),
                          ([lit('/'), W('a', 'int'), lit('/'), W('b', 'int'), lit('/x/'), W('c', 'int')], ['/1/2/x/3', '/3/1/x/2', '/10/-4/x/0']),
                          ([lit('/'), W('a', 'path'), lit('/to/'), W('b', 'path')], ['/p/q/to/r', '/r/to/p/q']),
                          ([lit('/'), W('k'), lit('-'), W(None), lit('-'), W('v')], ['/a-m-b', '/b-m-a'])):
            for pth in pths:
                for ch, sp_ in (([1], 0), ([3], 1)):
                    ctx.guarded(check_case, {'ast': R._fix(ast), 'choice': ch, 'spell': sp_, 'path': pth})
        ctx.count('asked_again_grid')
        for ast, paths in (([lit('/left-'), ['w', 'x', 'float', None]], ['/left-2.5', '/left-7']),
                           ([lit('/p/'), ['w', 'p', 'path', None], lit('/end/'), ['w', None, 'int', None]], ['/p/a/b/end/12', '/p/x/end/7']),
                           ([lit('/'), ['w', 'a', None, None], lit('/'), ['w', 'b', 're', '[a-c]+'], lit('.html')], ['/tom/abc.html', '/é/a.html'])):
            ctx.guarded(check_threaded, {'threaded': True, 'ast': ast, 'choice': [1], 'spell': 0, 'paths': paths})
    n = 4000 if ctx.tier == 'quick' else 50000
    ctx.hyp(case_st(), check_case, n)


def replay(ctx, case):
    if 'witness' in case:
        return witness_int_digits(ctx) if 'unicode-digits' in case['witness'] else witness_float_lookahead(ctx) if 'lookahead' in case['witness'] else witness_negzero(ctx) if 'zero' in case['witness'] else witness_k19(ctx)
    if 'threaded' in case:
        return check_threaded(ctx, case)
    check_case(ctx, case)
