"""C20  Framework error pages never reflect request data unescaped."""
import json
from html.parser import HTMLParser
from urllib.parse import unquote

from hypothesis import strategies as st

from vlib.core import CheckFailure, load_corpus, fmt_exc
from vlib.wsgi import make_environ, call_app

ID = 'C20'
LEVEL = 'exploration'
RULE = ('(error kinds incl. failures at the first / second next() of a handler generator and in before / after hooks, the exception carrying the payload) case = (error kind in {404, 404 whose whole path is the payload (URL-shaped text: scheme://[authority, //host, fragments), 404 next to an existing wildcard route (doubled / trailing slashes, extra segment, other case), 405 (literal and wildcard route), 400 malformed chunked body, 400 undecodable path, 500 handler crash whose exception text is the payload, '
        'last-resort critical-error page (custom error handler that raises / unknown charset)}, payload placed in the path, the query string (also as the value of well-known keys such as callback / jsonp / format), Host, '
        'X-Forwarded-Host and 16 other request headers (X-Request-ID, User-Agent, Referer, Cookie ...), Accept = HTML or application/json, client headers of 11 kinds of user agents, debug off (possibly switched off at run time after error pages were rendered in debug mode); optionally after 1-3 earlier requests for the same error on the same application with another Accept / a benign payload). Payloads are built from fragments: marker markup <zqx>, closing tags of the '
        'template, attribute breakers ("zqx"), percent-encoded and double-encoded markup (%3Czqx%3E, %253C..), pre-escaped entities, format-string '
        'syntax ({0}, {e.body}, {url}, %s), backslash escapes (\\\\x3c), quotes, NUL, non-ASCII, optionally padded to 300-5000 characters before or after the marker. Oracle for text/html bodies: the tag/attribute skeleton '
        'parsed with html.parser equals the skeleton of the same error kind for a benign request, and none of <zqx, zqx>, "zqx, zqx" occurs verbatim; '
        'for default-handler errors requested as JSON: Content-Type application/json and the body parses as JSON. Non-trivial = the payload contains '
        'one of < > " { % or a percent-encoded markup character; distinct by case hash.')
ASSUMPTIONS = ['html.parser is the reference tokenizer for "injected markup"', 'debug is off', 'the last-resort page is HTML by construction and is judged as HTML whatever Accept says']

FRAGS = ['<zqx>', '</zqx>', '<zqx a="1">', '"zqx"', "'zqx'", '</tt>', '</pre>', '</title>', '<script>zqx</script>', '">', "'>", '%3Czqx%3E', '%3czqx%3e', '%22zqx%22',
         '%253Czqx%253E', '&lt;zqx&gt;', '&#60;zqx&#62;', '&quot;zqx&quot;', '{0}', '{e.body}', '{url}', '{exception}', '{e.__class__}', '%s', '%(url)s', '{', '}', '{{', '}}',
         '\\x3czqx\\x3e', '\\u003czqx\\u003e', '\\', 'a', 'b/c', ' ', '\0', 'é', '日本', '<', '>', '"', '&', '#', '?', '=', ';', '<!--', '-->', '<zqx', 'zqx>', '\n', '\r\n',
         '<zqx\n>', '<ZQX>', 'javascript:zqx', '<img src=zqx onerror=zqx>',
         # fragments made only of characters that naive "safe token" validations let through
         # URL-shaped text (scheme, authority, IP-literal brackets, fragments): error pages and their JSON twins show or process the request URL
         'http://[x', 'a://[', 'http://[::1/y', 'http://[zz]/', '//host/x', 'http://h/<zqx>', '\\\\host\\x', '?x=<zqx>', '#<zqx>', 'javascript://%0a<zqx>', '[', ']', '://', '@', 'user:pw@h',
         'abc<zqx/src=//x.example/y.js', 'id-1<zqx', 'a.b:c/d+e,f;g<zqx=1', '0<zqx', 'uuid-4f<zqx/onload=zqx', 'x<zqx,']
_SHORT = st.lists(st.sampled_from(FRAGS), min_size=1, max_size=5).map(''.join)
PAYLOAD = st.one_of(_SHORT, _SHORT, _SHORT,
                    st.tuples(_SHORT, st.sampled_from([300, 1100, 2100, 5000]), st.sampled_from(['a', '%41', 'é', '&'])).map(lambda t: t[0] + t[2] * t[1]),
                    st.tuples(_SHORT, st.sampled_from([300, 1100, 2100, 5000]), st.sampled_from(['a', '/', 'b=1&'])).map(lambda t: t[2] * t[1] + t[0]))
KINDS = ['500-gen-first', '500-gen-conv', '500-gen-second', '500-before-hook', '500-after-hook', '500-decode', '500-bytes', '500-object', '404', '404-root', '404-near-route', '405', '405-wild', '400-chunked', '400-path', '500', 'critical-handler', 'critical-charset']


class Skel(HTMLParser):
    def __init__(self):
        super().__init__(convert_charrefs=True)
        self.items = []
        self.text = []

    def handle_starttag(self, tag, attrs):
        self.items.append(('start', tag, tuple(sorted(attrs))))

    def handle_startendtag(self, tag, attrs):
        self.items.append(('startend', tag, tuple(sorted(attrs))))

    def handle_endtag(self, tag):
        self.items.append(('end', tag))

    def handle_comment(self, data):
        self.items.append(('comment',))

    def handle_decl(self, decl):
        self.items.append(('decl', decl.lower()))

    def handle_pi(self, data):
        self.items.append(('pi',))

    def handle_data(self, data):
        self.text.append(data)


def skeleton(body_text):
    p = Skel()
    p.feed(body_text)
    p.close()
    return p.items, ''.join(p.text)


def build_app(kind, payload):
    import ombott
    app = ombott.Ombott()
    app.route('/ok', callback=lambda: 'ok')
    app.route('/only', method='POST', callback=lambda: 'posted')
    app.route('/user/<name>', callback=lambda name: 'user')
    app.route('/wild/<x>/<y:path>', method='POST', callback=lambda x, y: 'wild')

    def crash():
        raise RuntimeError(payload)
    app.route('/crash', callback=crash)

    def crash2():
        # failures whose exception objects carry things a JSON document cannot hold as they are (bytes, sets, other exceptions, request data)
        q = app.request.query.get('how', '')
        if q == 'decode':
            (payload.encode('utf8') + b'\xff').decode('utf8')
        if q == 'bytes':
            raise ValueError(payload.encode('utf8'), {1, 2}, KeyError(payload))
        raise LookupError(object(), payload)
    app.route('/crash2', callback=crash2)

    def gen():
        # failures at the first / second next() of a handler's generator (the exception carries request data)
        q = app.request.query.get('how', '')

        def g():
            if q == 'gen-second':
                yield ''
                yield 'first piece'
            if q == 'gen-conv':
                int(payload)
            raise RuntimeError(payload)
            yield 'never'
        return g()
    app.route('/gen', callback=gen)
    if kind in ('500-before-hook', '500-after-hook'):
        def failing_hook():
            raise RuntimeError(payload)
        app.add_hook('before_request' if kind == '500-before-hook' else 'after_request', failing_hook)

    def body():
        return app.request.body.read()
    app.route('/body', method='POST', callback=body)

    def bad_charset():
        app.response.content_type = 'text/html; charset=zqx-no-such-charset'
        return 'text ' + payload
    app.route('/charset', callback=bad_charset)
    if kind == 'critical-handler':
        def raising(err):
            raise RuntimeError('error handler failed: ' + payload)
        app.error(404)(raising)
    return app


OTHER_HEADERS = ['X-Request-ID', 'X-Request-Id', 'X-Correlation-ID', 'User-Agent', 'Referer', 'Accept-Language', 'X-Forwarded-For', 'X-Forwarded-Proto', 'Origin', 'Cookie',
                 'X-Real-IP', 'Traceparent', 'X-Amzn-Trace-Id', 'Authorization', 'Content-Type', 'Via']
QUERY_KEYS = ['callback', 'jsonp', 'cb', 'format', 'debug', 'lang', 'redirect', 'next', '_', 'q']


# spellings of "JSON first" that a client may send: weights, parameters, further types behind it
JSON_ACCEPTS = ['application/json;q=0.9', 'application/json; q=0.5, */*;q=0.1', 'application/json; charset=utf-8', 'application/json;q=1', 'application/json;q=1.0, text/html;q=0.9',
                'application/json, text/plain, */*', 'application/json;q=0.01']
# environment variables of the process whose NAMES suggest a debug switch, set to values that mean "off"
ENVS = [None, None, None, {'OMBOTT_DEBUG': 'False'}, {'OMBOTT_DEBUG': 'OFF', 'DEBUG': 'No'}, {'DEBUG': '0', 'OMBOTT_DEBUG': '0'}, {'OMBOTT_DEBUG': ' false '}, {'BOTTLE_DEBUG': 'False', 'PYTHONDEBUG': ''},
        {'OMBOTT_DEBUG': 'no', 'OMBOTT_ENV': 'production'}, {'OMBOTT_DEBUG': 'Off'}]
CLIENTS = [None, None, None, {'User-Agent': 'Mozilla/4.0 (compatible; MSIE 8.0; Windows NT 6.1)'}, {'User-Agent': 'curl/8.4.0'}, {'User-Agent': 'Mozilla/5.0 (X11; Linux x86_64) Gecko/20100101 Firefox/128.0'},
           {'User-Agent': 'Googlebot/2.1 (+http://www.google.com/bot.html)', 'From': 'googlebot(at)googlebot.com'}, {'X-Requested-With': 'XMLHttpRequest', 'User-Agent': 'Mozilla/5.0 (compatible; MSIE 10.0; Trident/6.0)'},
           {'Accept-Language': 'de-DE,de;q=0.9', 'Accept-Encoding': 'gzip, br', 'DNT': '1'}, {'Connection': 'keep-alive', 'Cache-Control': 'no-cache', 'Pragma': 'no-cache'},
           {'User-Agent': ''}, {'Origin': 'https://other.example', 'Sec-Fetch-Mode': 'cors'}]


def make_request(kind, payload, where, accept, client=None):
    env, want = _make_request(kind, payload, where, accept)
    for k, v in ((CLIENTS[client % len(CLIENTS)] if client else None) or {}).items():
        env.setdefault('HTTP_' + k.upper().replace('-', '_'), v)            # what kind of client asks has no say in how request text is rendered
    return env, want


def _make_request(kind, payload, where, accept):
    qs = payload if 'query' in where else 'a=1'
    for w in where:
        if w.startswith('qkey:'):
            qs = w[5:] + '=' + payload + ('&' + qs if 'query' in where else '')
    headers = {}
    if accept:
        headers['Accept'] = accept
    try:
        payload.encode('latin1')
        l1 = True
    except UnicodeError:
        l1 = False
    if 'host' in where and l1 and not any(c in payload for c in '\r\n\0'):
        headers['Host'] = 'h' + payload
    if 'xfh' in where and l1 and not any(c in payload for c in '\r\n\0'):
        headers['X-Forwarded-Host'] = 'x' + payload
    for w in where:
        if w.startswith('hdr:') and l1 and not any(c in payload for c in '\r\n\0'):
            headers[w[4:]] = payload
    if any(c in qs for c in '\r\n') or not l1:
        qs = qs.replace('\r', '%0D').replace('\n', '%0A').encode('utf8').decode('latin1')
    ppart = payload if 'path' in where else 'plain'
    if kind in ('404', 'critical-handler'):
        return make_environ('GET', '/nf/' + ppart, qs=qs, headers=headers), (404 if kind == '404' else 500)
    if kind == '404-root':
        # the payload is the whole path (what follows the first slash may look like an absolute or network-path URL)
        # (500: for some URL-shaped paths the HTML renderer itself fails on the unchanged tree and the last-resort page answers - still an error page to be judged)
        return make_environ('GET', '/' + (ppart if 'path' in where else 'plain'), qs=qs, headers=headers), (404, 200, 500)
    if kind == '404-near-route':
        # a miss that lies next to an existing wildcard route: doubled / trailing slashes, one segment too many
        near = ['/user//' + ppart, '/user/' + ppart + '/x', '/user/' + ppart + '//', '//user//' + ppart + '/y', '/User/' + ppart][len(payload) % 5]
        return make_environ('GET', near, qs=qs, headers=headers), (404, 200)       # some spellings still reach the route: no error page then
    if kind == '405':
        return make_environ('GET', '/only', qs=qs, headers=headers), 405
    if kind == '405-wild':
        return make_environ('GET', '/wild/' + ppart.replace('/', '_') + '/' + ppart, qs=qs, headers=headers), (405, 404)   # 404 when the payload does not fit the wildcards
    if kind == '400-chunked':
        headers['Transfer-Encoding'] = 'chunked'
        return make_environ('POST', '/body', qs=qs, body=b'zz\r\nnot chunked', content_length=None, headers=headers), 400
    if kind == '400-path':
        raw = '/\xff' + (ppart if l1 else 'plain')
        return make_environ('GET', '/', qs=qs, headers=headers, raw_path=raw), 400
    if kind == '500':
        return make_environ('GET', '/crash', qs=qs, headers=headers), 500
    if kind.startswith('500-gen'):
        return make_environ('GET', '/gen', qs='how=' + kind[4:] + '&' + qs, headers=headers), (500, 200)       # (a failure after the first piece cannot become an error page any more)
    if kind in ('500-before-hook', '500-after-hook'):
        return make_environ('GET', '/ok', qs=qs, headers=headers), (500, 200)
    if kind.startswith('500-'):
        return make_environ('GET', '/crash2', qs='how=' + kind[4:] + '&' + qs, headers=headers), 500
    if kind == 'critical-charset':
        return make_environ('GET', '/charset', qs=qs, headers=headers), 500
    raise AssertionError(kind)


_BENIGN = {}


def benign_skeleton(kind, accept):
    key = (kind, accept)
    if key not in _BENIGN:
        app = build_app(kind, 'benign')
        env, _ = make_request(kind, 'benign', ('path', 'query', 'host') + tuple('hdr:' + h for h in OTHER_HEADERS) + tuple('qkey:' + k for k in QUERY_KEYS[:1]), accept)
        r = call_app(app, env)
        _BENIGN[key] = (skeleton(r.body.decode('utf8', 'replace'))[0], r.header('Content-Type'))
    return _BENIGN[key]


def check_case(ctx, case):
    env_vars = ENVS[case['env'] % len(ENVS)] if case.get('env') else None
    if not env_vars:
        return _check_case(ctx, case)
    import os
    old = {k: os.environ.get(k) for k in env_vars}
    os.environ.update(env_vars)
    try:
        ctx.count('process_environment_with_debug_like_variables_set_to_off')
        return _check_case(ctx, case)
    finally:
        for k, v in old.items():
            if v is None:
                os.environ.pop(k, None)
            else:
                os.environ[k] = v


def _check_case(ctx, case):
    kind, payload, where, accept = case['kind'], case['payload'], tuple(case['where']), case['accept']
    app = build_app(kind, payload)
    # earlier clients of the same application: the same error asked for with another Accept, with a benign payload, or twice
    for b_payload, b_accept in case.get('before') or ():
        b_env, _ = make_request(kind, payload if b_payload == 'same' else b_payload, where, b_accept)
        rb = call_app(app, b_env)
        if rb.escaped is not None and not (kind == '500-gen-second' and rb.code == 200):
            raise CheckFailure(f'{kind}: exception escaped from an earlier request: {fmt_exc(rb.escaped)}')
        ctx.count('earlier_request_on_the_same_application')
    if case.get('debug_before'):
        # the application ran in debug mode (and rendered error pages) before debug was switched off at run time
        app.setup({'debug': True})
        for bk in ('500', '404'):
            b_env, _ = make_request(bk, 'benign', ('path', 'query'), 'text/html' if case['debug_before'] == 1 else accept)
            call_app(app, b_env)
        app.setup({'debug': False})
        ctx.count('debug_switched_off_at_run_time')
    env, want_code = make_request(kind, payload, where, accept, case.get('client'))
    r = call_app(app, env)
    if kind == '500-gen-second' and r.escaped is not None and r.code == 200:
        ctx.count('failure_after_the_first_piece_left_to_the_server')        # the response had started: no error page can be generated any more
        return
    if r.escaped is not None:
        raise CheckFailure(f'{kind}: exception escaped: {fmt_exc(r.escaped)}')
    if r.code == 200 and isinstance(want_code, tuple) and 200 in want_code:
        ctx.count('near_route_spelling_reached_the_route')
        return
    if r.code not in (want_code if isinstance(want_code, tuple) else (want_code,)):
        raise CheckFailure(f'{kind}: expected status {want_code}, got {r.status!r} (payload {payload!r})')
    ct = (r.header('Content-Type') or '')
    body = r.body.decode('utf8', 'replace')
    if kind == '404-root' and r.code == 500 and accept not in (['application/json'] + JSON_ACCEPTS):          # (a JSON client still has to get JSON: that rendering does not depend on the URL)
        kind = 'critical-handler'           # the last-resort page answered: judged as that page
        ctx.count('url_shaped_path_answered_by_the_last_resort_page')
    is_json_kind = accept in (['application/json'] + JSON_ACCEPTS) and not kind.startswith('critical')
    if is_json_kind:
        if not ct.startswith('application/json'):
            raise CheckFailure(f'{kind}: JSON requested, Content-Type is {ct!r}; body {body[:200]!r}')
        try:
            doc = json.loads(r.body.decode('utf8'))
        except Exception as e:
            raise CheckFailure(f'{kind}: JSON requested but the body is not valid JSON ({e}): {body[:300]!r}')
        if not isinstance(doc, dict):
            raise CheckFailure(f'{kind}: JSON error body is {type(doc).__name__}')
        ctx.count('json_pages')
    if ct.startswith('text/html'):
        bskel, bct = benign_skeleton(kind, accept)
        skel, text = skeleton(body)
        if skel != bskel:
            extra = [x for x in skel if x not in bskel][:4]
            raise CheckFailure(f'{kind}: markup structure of the error page changed with the payload {payload!r} (in {where}): unexpected items {extra!r}; '
                               f'body {body[:600]!r}')
        for needle in ('<zqx', 'zqx>', '"zqx', 'zqx"', '<ZQX'):
            if needle in body:
                raise CheckFailure(f'{kind}: {needle!r} from the payload {payload!r} (in {where}) occurs unescaped in the error page: '
                                   f'...{body[max(0, body.find(needle) - 80):body.find(needle) + 80]!r}')
        ctx.count('html_pages')
    elif not is_json_kind:
        raise CheckFailure(f'{kind}: error page has Content-Type {ct!r} (accept {accept!r})')
    ctx.count('kind_' + kind)
    for w in where:
        ctx.count('payload_in_' + w.split(':')[0])
    dec = unquote(unquote(payload))
    hot = any(c in payload for c in '<>"{%') or dec != payload
    if '%3' in payload.lower() or '%2' in payload.lower():
        ctx.count('percent_encoded_markup')
    if '<zqx' in dec.lower():
        ctx.count('marker_tag_in_payload')
    if hot:
        ctx.nontrivial(case, sample=case)


CASE = st.fixed_dictionaries({
    'kind': st.sampled_from(KINDS), 'payload': PAYLOAD,
    'where': st.lists(st.one_of(st.sampled_from(['path', 'query', 'host', 'xfh']), st.sampled_from(['path', 'query', 'host', 'xfh']),
                               st.sampled_from(OTHER_HEADERS).map(lambda h: 'hdr:' + h), st.sampled_from(QUERY_KEYS).map(lambda k: 'qkey:' + k)),
                      min_size=1, max_size=4, unique=True).map(sorted),
    'accept': st.sampled_from([None, None, 'text/html', 'application/json', '*/*'] + JSON_ACCEPTS),
    'client': st.integers(0, 11),
    'env': st.integers(0, 9),
    'debug_before': st.sampled_from([0, 0, 0, 1, 2]),
    'before': st.one_of(st.just([]), st.just([]), st.lists(st.tuples(st.sampled_from(['same', 'same', 'benign', '<zqx>']),
                                                                      st.sampled_from([None, 'text/html', 'application/json', '*/*'])).map(list), min_size=1, max_size=3)),
})


def run(ctx):
    for name, case in load_corpus(ID):
        ctx.guarded(check_case, case)
        ctx.count('corpus')
    if ctx.shard == 0:
        for kind in KINDS:
            for p in ['<zqx>', '"zqx"', '%3Czqx%3E', '%22zqx%22', '</tt><zqx a="1">', '{0}{e.body}', '%253Czqx%253E', '&lt;zqx&gt;', '<script>zqx</script>',
                      '<zqx>' + 'a' * 2100, 'a' * 2100 + '<zqx>', '<zqx>' + 'a' * 4100 + '"zqx"']:
                for where in (['path'], ['query'], ['host'], ['xfh'], ['path', 'query', 'host']):
                    for accept in (None, 'application/json'):
                        ctx.guarded(check_case, {'kind': kind, 'payload': p, 'where': where, 'accept': accept})
        # every other request header and a set of well-known query keys as carrier, HTML and JSON rendering
        for p in ['http://[x', 'a://[', 'http://[::1/y', 'http://[zz]/', '//host/<zqx>', 'http://h/<zqx>', '[<zqx>', 'http://[<zqx>]/', 'x#<zqx>', 'http:<zqx>', '\\\\h\\<zqx>', '%5B<zqx>']:
            for kind in ('404-root', '404', '405-wild', '400-path'):
                for where in (['path'], ['path', 'query'], ['path', 'host']):
                    for accept in (None, 'application/json', 'text/html'):
                        ctx.guarded(check_case, {'kind': kind, 'payload': p, 'where': where, 'accept': accept})
        ctx.count('url_shaped_path_grid')
        # every kind of client x every error kind x HTML / JSON; and debug switched off at run time after pages were rendered in debug mode
        for kind in KINDS:
            for client in range(len(CLIENTS)):
                for accept in (None, 'application/json'):
                    ctx.guarded(check_case, {'kind': kind, 'payload': '<zqx>"zqx"', 'where': ['path', 'query'], 'accept': accept, 'client': client})
            for dbg in (1, 2):
                for accept in (None, 'application/json', 'text/html'):
                    for p in ('<zqx>', '"zqx"{0}'):
                        ctx.guarded(check_case, {'kind': kind, 'payload': p, 'where': ['path', 'query'], 'accept': accept, 'debug_before': dbg})
        ctx.count('client_and_debug_history_grid')
        for kind in KINDS:
            for acc in JSON_ACCEPTS:
                ctx.guarded(check_case, {'kind': kind, 'payload': '<zqx>"zqx"', 'where': ['path', 'query'], 'accept': acc})
            for env in range(3, len(ENVS)):
                for accept in (None, 'application/json'):
                    ctx.guarded(check_case, {'kind': kind, 'payload': '<zqx>{0}', 'where': ['path', 'query'], 'accept': accept, 'env': env})
        ctx.count('accept_spelling_and_environment_grid')
        for kind in ('404', '405', '500', '400-chunked'):
            for p in ['<zqx>', 'abc<zqx/src=//x.example/y.js', '"zqx"', '0<zqx', '</script><zqx>']:
                for carrier in ['hdr:' + h for h in OTHER_HEADERS] + ['qkey:' + k for k in QUERY_KEYS]:
                    for accept in (None, 'application/json'):
                        ctx.guarded(check_case, {'kind': kind, 'payload': p, 'where': [carrier], 'accept': accept})
        # the same error served to an earlier client with every other Accept (HTML first then JSON, JSON first then HTML, twice the same)
        for kind in KINDS:
            for p in ['<zqx>', 'plain', '%3Czqx%3E"zqx"']:
                for first in (None, 'text/html', 'application/json', '*/*'):
                    for second in (None, 'text/html', 'application/json'):
                        for bp in ('same', 'benign'):
                            ctx.guarded(check_case, {'kind': kind, 'payload': p, 'where': ['path', 'query'], 'accept': second, 'before': [[bp, first]]})
        ctx.count('payload_grid')
    n = 3000 if ctx.tier == 'quick' else 30000
    ctx.hyp(CASE, check_case, n)


def replay(ctx, case):
    check_case(ctx, case)
