"""C14  Response header values cannot split the response and are wire-safe."""
import email.utils

from hypothesis import strategies as st

from vlib.core import CheckFailure, load_corpus, fmt_exc
from vlib.wsgi import make_environ, call_app

ID = 'C14'
LEVEL = 'exploration'
RULE = ('case = header program (values incl. int / float / str subclasses whose text is a label; a stored value read and written back; the response emitted through copy()): object kind (Response / HTTPResponse / HTTPError built directly, or app.response / returned HTTPResponse '
        'through Ombott.__call__), status from {200,201,204,206,304,404,500} set before or after, 1-6 operations (entry point in '
        '{headers[k]=v, append, setdefault, content_type=, content_length=, expires=, constructor headers dict / pair list / keyword / HeaderDict instance filled through its own constructor or update(); values appended to a COPY of the header dict must not be emitted}, '
        'canonical-case name incl. every entity header of the 204/304 blacklists, value). Values: clean text (ASCII, Latin-1, BMP, astral), '
        'text with CR / LF / NUL injected at start, middle, end (incl. a single trailing LF, CRLF, LFLF), other control characters, int, float, '
        'bool, None, bytes, list, tuple, dict. Oracle vs a model (name -> list of texts): a value whose text has CR/LF/NUL must raise and nothing '
        'with CR/LF/NUL is ever in headerlist / the start_response list; a clean str/int/float/bool/None is accepted; every emitted value is str, '
        'Latin-1 encodable and .encode(latin1).decode(utf8) == str(value); values of a name are emitted once each in order; blacklisted entity '
        'headers are absent for 204/304; values handed to set_cookie (plain, quoted, half-quoted, with CR/LF/NUL) may be escaped or refused but the emitted Set-Cookie value obeys the same wire rules; default Content-Type only when allowed and not set. Plus: a 204 / 304 response with blacklisted headers on one thread against a plain request on another thread of the same application, every single-preemption schedule. Non-trivial = an injected control character, a '
        'non-ASCII or non-str value, a multi-valued header, or a 204/304 status with a blacklisted header present; distinct by case hash.')
ASSUMPTIONS = ['header names are given in canonical case (the blacklist is keyed on canonical names)',
               'HeaderDict.update, list-valued setdefault and cookie attributes are not among the setters the property lists (not judged); cookie VALUES are judged only as emitted, within Latin-1 (above it: finding K15 of C15)']

BAD = {204: {'Content-Type'},
       304: {'Allow', 'Content-Encoding', 'Content-Language', 'Content-Length', 'Content-Range', 'Content-Type', 'Content-Md5', 'Last-Modified'}}
NAMES = ['X-Test', 'X-Other', 'Content-Type', 'Content-Length', 'Content-Language', 'Allow', 'Last-Modified', 'Content-Encoding',
         'Content-Range', 'Content-Md5', 'Location', 'Etag', 'Vary']
KW_NAMES = ['Allow', 'Location', 'Etag', 'Vary', 'Xtest']
DEFAULT_CT = 'text/html; charset=UTF-8'

_clean = st.one_of(
    st.sampled_from(['v', 'text/plain', 'a, b', 'é', 'ÿ', 'Ω', 'Ã©', 'Â\xa0', 'â\x82¬', 'cafÃ©', 'Ã', 'Ã\x83Â©', '日本', '\U0001F600', 'x' * 40, ' lead', 'trail ', '', 'a\tb', '\x1f', '\x7f', '\x85',
                     ' ', '\x0b\x0c', 'Set-Cookie: a=b', '%0d%0a']),
    st.text(st.characters(exclude_categories=['Cs'], exclude_characters='\r\n\0'), max_size=12))


@st.composite
def _inject(draw):
    base = draw(_clean)
    ctl = draw(st.sampled_from(['\r', '\n', '\0', '\r\n', '\n\n', '\r\nSet-Cookie: a=b', '\n ', '\r\n\r\n<html>', '\r\n ', '\r\n\t', '\r\n  folded', '\r\n \r\n\tX: y',
                                   '\n\t', '\r ', '\0 ', ' \r\n ', '\x0b\r\n ', '\r\n\x0b']))
    pos = draw(st.sampled_from(['start', 'mid', 'end', 'end', 'only']))
    if pos == 'only':
        return ctl
    if pos == 'start':
        return ctl + base
    if pos == 'end':
        return base + ctl
    k = draw(st.integers(0, len(base)))
    return base[:k] + ctl + base[k:]


VALUE = st.one_of(
    _clean.map(lambda s: ['str', s]), _clean.map(lambda s: ['str', s]),
    _inject().map(lambda s: ['str', s]), _inject().map(lambda s: ['str', s]),
    st.integers(-10**6, 10**12).map(lambda i: ['int', i]),
    st.floats(allow_nan=True, allow_infinity=True).map(lambda f: ['float', f]),
    st.booleans().map(lambda b: ['bool', b]),
    st.just(['none', None]),
    # subclasses of the accepted scalar types: what is emitted is str(value), whatever the base type's digits would be
    st.one_of(_clean, _inject()).map(lambda t: ['intsub', [7, t]]), st.one_of(_clean, _inject()).map(lambda t: ['floatsub', [2.5, t]]), st.one_of(_clean, _inject()).map(lambda t: ['strsub', t]),
    st.sampled_from([b'bytes', b'a\r\nb']).map(lambda b: ['bytes', b]),
    st.sampled_from([['list', ['a', 'b']], ['list', ['a\r\nX: y']], ['tuple', ['a', 'b']], ['dict', {'a': 'b'}]]),
)
# cookie values: Latin-1 text (values above Latin-1 are the open finding K15 of C15), control characters, in plain, quoted and half-quoted shapes
_ctext = st.one_of(st.sampled_from(['v', 'a b', 'a;b', 'a,b', 'é', 'a\\b', '', 'abc\r\nX-Injected:1', 'a\rb', 'a\nb', 'a\0b', '\r\n', 'x\r\n y', 'Set-Cookie:\nz=1', '\x7f', '\x1f']),
                   st.text(st.characters(max_codepoint=255), max_size=10))
COOKIE_VALUE = st.builds(lambda t, q: [t, '"' + t + '"', '"' + t, t + '"', '""' + t + '""', "'" + t + "'"][q], _ctext, st.integers(0, 5))
ENTRY = st.sampled_from(['setitem', 'setitem', 'append', 'append', 'append', 'setdefault', 'content_type', 'content_length', 'expires', 'copy_then_append', 'read_write_back'])
CTOR = st.sampled_from(['ctor_dict', 'ctor_pairs', 'ctor_kw', 'ctor_hd'])


@st.composite
def case_st(draw):
    kind = draw(st.sampled_from(['Response', 'HTTPResponse', 'HTTPError', 'wsgi_response', 'wsgi_returned', 'wsgi_raised']))
    ops = []
    if kind not in ('Response', 'wsgi_response') and draw(st.booleans()):
        for _ in range(draw(st.integers(1, 3))):
            e = draw(CTOR) if kind != 'HTTPError' else 'ctor_kw'
            ops.append([e, draw(st.sampled_from(KW_NAMES if e == 'ctor_kw' else NAMES)), draw(VALUE)])
    names = draw(st.lists(st.sampled_from(NAMES), min_size=1, max_size=3))
    for _ in range(draw(st.integers(1 if not ops else 0, 5))):
        ops.append([draw(ENTRY), draw(st.sampled_from(names)), draw(VALUE)])
    if draw(st.integers(0, 3)) == 0:
        ops.insert(draw(st.integers(0, len(ops))), ['set_cookie', draw(st.sampled_from(['c', 'sid'])), ['str', draw(COOKIE_VALUE)]])
    return {'kind': kind, 'status': draw(st.sampled_from([200, 200, 201, 204, 204, 206, 304, 304, 404, 500])),
            'status_first': draw(st.booleans()), 'ops': ops, 'via_copy': draw(st.integers(0, 3)) == 0}


class _IntLabel(int):
    """A number whose text is a label (what an enum member or a domain type may be): the header setters see an int, the wire sees str(value)."""
    label = ''

    def __str__(self):
        return self.label


class _FloatLabel(float):
    label = ''

    def __str__(self):
        return self.label


class _StrSub(str):
    pass


def _mk(v):
    t, x = v
    if t == 'tuple':
        return tuple(x)
    if t in ('intsub', 'floatsub'):
        o = (_IntLabel if t == 'intsub' else _FloatLabel)(x[0])
        o.label = x[1]
        return o
    if t == 'strsub':
        return _StrSub(x)
    return x


def _text(v):
    return str(_mk(v))


def _has_ctl(s):
    return '\r' in s or '\n' in s or '\0' in s


def _simple(v):
    return v[0] in ('str', 'int', 'float', 'bool', 'none')


class Model:
    def __init__(self):
        self.h = {}
        self.rejected = []       # texts that must never be emitted
        self.cookies = False
        self.lenient = False     # a non-simple type was accepted: exact comparison is waived for that name

    def apply(self, entry, name, v, raised, exc):
        """Update the model with the observed outcome; raise CheckFailure if the outcome itself is wrong."""
        if entry == 'copy_then_append':
            return          # whatever happened to the copy (accepted or refused), the response's own headers are as before
        if entry == 'read_write_back':
            # headers[name] = headers[name]: the value read (the last one) passes through the setter a second time and replaces the others
            if not raised and name in self.h:
                self.h[name] = [self.h[name][-1]]
            return
        if entry == 'set_cookie':
            # not one of the single-value setters: it may accept (and escape) or reject; only what is EMITTED under Set-Cookie is judged
            if not raised:
                self.cookies = True
            return
        if entry == 'content_type':
            name, entry = 'Content-Type', 'setitem'
        elif entry == 'content_length':
            name, entry = 'Content-Length', 'setitem'
        elif entry == 'expires':
            name, entry = 'Expires', 'setitem'
            if v[0] in ('int', 'float'):
                try:
                    txt = email.utils.formatdate(_mk(v), usegmt=True)
                except Exception:
                    txt = None      # the date formatter rejects it; either outcome is fine
                if raised:
                    return
                if txt is not None:
                    self.h[name] = [txt]
                else:
                    self.h.pop(name, None)
                    self.lenient = True
                return
            if v[0] != 'str':
                if not raised:
                    self.lenient = True
                return
        if entry in ('ctor_dict', 'ctor_pairs', 'ctor_kw'):
            entry = 'append'
        txt = _text(v)
        if _simple(v) and _has_ctl(txt):
            self.rejected.append(txt)
            if not raised:
                raise CheckFailure(f'{entry} accepted a value containing CR/LF/NUL for {name}: {txt!r}')
            return
        if not _simple(v):
            if _has_ctl(txt):
                self.rejected.append(txt)
            if not raised:
                self.lenient = True
            return
        if raised:
            raise CheckFailure(f'{entry} rejected a clean {v[0]} value for {name}: {txt!r} ({exc})')
        if entry == 'setitem':
            self.h[name] = [txt]
        elif entry == 'append':
            self.h.setdefault(name, []).append(txt)
        elif entry == 'setdefault':
            self.h.setdefault(name, [txt])


def _do(obj, entry, name, v):
    val = _mk(v)
    if entry == 'setitem':
        obj.headers[name] = val
    elif entry == 'append':
        obj.headers.append(name, val)
    elif entry == 'setdefault':
        obj.headers.setdefault(name, val)
    elif entry == 'content_type':
        obj.content_type = val
    elif entry == 'content_length':
        obj.content_length = val
    elif entry == 'expires':
        obj.expires = val
    elif entry == 'set_cookie':
        obj.set_cookie(name, val)
    elif entry == 'read_write_back':
        obj.headers[name] = obj.headers[name]
    elif entry == 'copy_then_append':
        # a copy of the header dict is taken and a value appended to THE COPY: the response itself must not emit it
        c = obj.headers.copy()
        c.append(name, val)
        c[name + '-Copy'] = 'x'
    else:
        raise AssertionError(entry)


def _build(case, model, factory_kind):
    """Construct the response object (running constructor ops), returns obj or None if the constructor rejected."""
    import ombott
    ctor_ops = [o for o in case['ops'] if o[0].startswith('ctor_')]
    rest = [o for o in case['ops'] if not o[0].startswith('ctor_')]
    status = case['status']
    if factory_kind == 'Response':
        obj = ombott.Response()
    else:
        hdr_dict, hdr_pairs, kw = {}, [], {}
        for e, n, v in ctor_ops:
            if e == 'ctor_dict':
                hdr_dict[n] = _mk(v)
            elif e == 'ctor_pairs':
                hdr_pairs.append((n, _mk(v)))
            else:
                kw[n] = _mk(v)
        # one container per construction: dict wins if both were drawn (pairs then go through kw-less path)
        use_pairs = bool(hdr_pairs) and not hdr_dict
        eff = []
        if hdr_dict:
            eff += [('ctor_dict', n, v) for e, n, v in ctor_ops if e == 'ctor_dict']
            # later duplicates of a name in a dict overwrite: keep the last per name in first-insertion order
            last = {}
            for e, n, v in eff:
                last[n] = v
            eff = [('ctor_dict', n, last[n]) for n in last]
        if use_pairs:
            eff += [('ctor_pairs', n, v) for e, n, v in ctor_ops if e == 'ctor_pairs']
        lastkw = {}
        for e, n, v in ctor_ops:
            if e == 'ctor_kw':
                lastkw[n] = v
        eff += [('ctor_kw', n, lastkw[n]) for n in lastkw]
        headers = hdr_dict if hdr_dict else (hdr_pairs if use_pairs else None)
        hd_ops = [(n, v) for e, n, v in ctor_ops if e == 'ctor_hd']
        if hd_ops and factory_kind != 'HTTPError':
            # headers handed over as a HeaderDict instance that was filled through its own constructor / update() (paths that validate nothing):
            # the response constructor may refuse it or take it over, but nothing with CR / LF / NUL may be emitted
            from ombott.common_helpers import HeaderDict
            hd = HeaderDict({hd_ops[0][0]: _mk(hd_ops[0][1])})
            for n, v in hd_ops[1:]:
                hd.update({n: _mk(v)})
            try:
                obj = ombott.HTTPResponse(b'body', status if case['status_first'] else None, hd, **kw)
            except Exception:
                for n, v in hd_ops:
                    if _has_ctl(_text(v)):
                        model.rejected.append(_text(v))
                return None, rest
            model.lenient = True
            for n, v in hd_ops:
                if _has_ctl(_text(v)):
                    model.rejected.append(_text(v))
            return obj, rest
        must_raise = any(_simple(v) and _has_ctl(_text(v)) for e, n, v in eff)
        try:
            if factory_kind == 'HTTPError':
                obj = ombott.HTTPError(status if case['status_first'] else None, 'body', **kw)
            else:
                obj = ombott.HTTPResponse(b'body', status if case['status_first'] else None, headers, **kw)
        except (ValueError, TypeError) as e:
            bad_type = any(not _simple(v) for e_, n, v in eff)
            if not must_raise and not bad_type:
                raise CheckFailure(f'constructor rejected clean header values {[(n, _text(v)) for e_, n, v in eff]!r}: {e}')
            for e_, n, v in eff:
                if _has_ctl(_text(v)):
                    model.rejected.append(_text(v))
            return None, rest
        if must_raise:
            raise CheckFailure(f'constructor accepted a header value containing CR/LF/NUL: {[(n, _text(v)) for e_, n, v in eff]!r}')
        for e_, n, v in eff:
            model.apply(e_, n, v, False, None)
    return obj, rest


def _run_ops(obj, ops, model):
    for e, n, v in ops:
        try:
            _do(obj, e, n, v)
            raised, exc = False, None
        except Exception as ex:   # any rejection; the model decides whether rejecting was right
            raised, exc = True, ex
        model.apply(e, n, v, raised, exc)


def _judge(emitted, model, status, what, extra_ok=()):
    if type(emitted) is not list:
        raise CheckFailure(f'{what}: header list is {type(emitted).__name__}')
    by_name = {}
    for item in emitted:
        if type(item) is not tuple or len(item) != 2 or type(item[0]) is not str or type(item[1]) is not str:
            raise CheckFailure(f'{what}: header item is not (str, str): {item!r}')
        k, v = item
        if _has_ctl(v):
            raise CheckFailure(f'{what}: emitted value of {k} contains CR/LF/NUL: {v!r}')
        try:
            raw = v.encode('latin1')
        except UnicodeError:
            raise CheckFailure(f'{what}: emitted value of {k} is not Latin-1 encodable: {v!r}')
        by_name.setdefault(k, []).append((v, raw))
    for bad in model.rejected:
        for k, vs in by_name.items():
            if any(bad == v for v, _ in vs):
                raise CheckFailure(f'{what}: rejected value {bad!r} was emitted under {k}')
    banned = BAD.get(status, set())
    for k in banned:
        if k in by_name:
            raise CheckFailure(f'{what}: {k} emitted on a {status} response: {by_name[k]!r}')
    if model.lenient:
        return
    exp = {k: vs for k, vs in model.h.items() if k not in banned}
    if not banned and 'Content-Type' not in model.h:
        exp['Content-Type'] = [DEFAULT_CT]
    for k, vs in exp.items():
        got = by_name.get(k)
        if got is None:
            raise CheckFailure(f'{what}: header {k} = {vs!r} was set but not emitted (status {status}); emitted {emitted!r}')
        try:
            back = [raw.decode('utf8') for _, raw in got]
        except UnicodeError:
            raise CheckFailure(f'{what}: emitted {k} values {got!r} do not decode as UTF-8')
        if back != vs:
            raise CheckFailure(f'{what}: header {k} emitted as {back!r}, set values in order {vs!r}')
    for k in by_name:
        if k not in exp and k not in extra_ok and not (k == 'Set-Cookie' and model.cookies):
            raise CheckFailure(f'{what}: unexpected header {k}: {by_name[k]!r} (model {model.h!r})')


def check_case(ctx, case):
    import ombott
    kind = case['kind']
    model = Model()
    status = case['status']
    # unspecified zone: setdefault(name, [list]) is the multi-value form of the API, not a single-value setter
    nlist = sum(1 for e, _, v in case['ops'] if e == 'setdefault' and v[0] == 'list')
    if nlist:
        ctx.exclude('setdefault_with_list_value(unjudged)', nlist)
        case = dict(case, ops=[o for o in case['ops'] if not (o[0] == 'setdefault' and o[2][0] == 'list')])
    if not kind.startswith('wsgi'):
        obj, rest = _build(case, model, kind)
        if obj is None:
            ctx.count('constructor_rejected')
        else:
            if kind == 'Response' and case['status_first']:
                obj.status = status
            _run_ops(obj, rest, model)
            if not case['status_first'] or kind == 'Response':
                obj.status = status
            if case.get('via_copy'):
                # what is emitted is a copy of the response (what redirect() and error handlers work on): every stored value passes through the
                # constructor / setters a second time
                try:
                    obj = obj.copy(cls=ombott.HTTPResponse)          # (the form redirect() uses; the default cls is not constructible)
                    ctx.count('emitted_through_a_copy_of_the_response')
                except Exception:
                    # (on the unchanged tree copy() refuses a response holding a multi-valued header; nothing is emitted then, which the property allows)
                    ctx.count('copy_of_the_response_refused(unjudged)')
            try:
                hl = obj.headerlist
            except Exception as e:
                raise CheckFailure(f'{kind}.headerlist raised {type(e).__name__}: {e} after the operations {case["ops"]!r} were accepted')
            _judge(hl, model, status, f'{kind}.headerlist')
    else:
        app = ombott.Ombott()
        box = {}

        def h():
            try:
                if kind == 'wsgi_response':
                    obj, rest = app.response, [o for o in case['ops'] if not o[0].startswith('ctor_')]
                    if case['status_first']:
                        obj.status = status
                else:
                    obj, rest = _build(case, model, 'HTTPResponse')
                    if obj is None:
                        box['ctor_rejected'] = True
                        return 'rejected'
                _run_ops(obj, rest, model)
                obj.status = status
                box['hl'] = list(obj.headerlist)
            except CheckFailure as f:
                box['fail'] = f
                return 'fail'
            if kind == 'wsgi_response':
                return b'body'          # bytes: the body must not depend on a charset parameter a generated Content-Type may carry
            if kind == 'wsgi_raised':
                raise obj
            return obj
        app.route('/h', callback=h)
        r = call_app(app, make_environ('GET', '/h'))
        if 'fail' in box:
            raise box['fail']
        if r.escaped is not None:
            raise CheckFailure(f'exception escaped: {fmt_exc(r.escaped)}')
        if box.get('ctor_rejected'):
            ctx.count('constructor_rejected')
            _judge(r.headers, Model(), 200, 'start_response headers', extra_ok=('Content-Length',))
        else:
            if r.code != status:
                raise CheckFailure(f'status {r.status!r}, handler set {status}; errors {r.errors[-300:]}')
            _judge(box['hl'], model, status, f'{kind} headerlist in handler')
            _judge(r.headers, model, status, 'start_response headers', extra_ok=('Content-Length',))
    # ---- classification
    vals = [v for _, _, v in case['ops']]
    inj = any(_simple(v) and _has_ctl(_text(v)) for v in vals)
    nonascii = any(v[0] == 'str' and any(ord(c) > 127 for c in v[1]) for v in vals)
    nonstr = any(v[0] != 'str' for v in vals)
    multi = any(len(vs) > 1 for vs in model.h.values())
    black = bool(BAD.get(status, set()) & set(model.h))
    for flag, name in ((inj, 'injected_ctl'), (nonascii, 'non_ascii'), (nonstr, 'non_str'), (multi, 'multi_valued'), (black, 'blacklisted_header_on_204_304'),
                       (multi and black and any(len(model.h[k]) > 1 for k in BAD.get(status, set()) & set(model.h)), 'multi_valued_blacklisted'),
                       (any(v[0] == 'str' and v[1].endswith('\n') and not _has_ctl(v[1][:-1]) for v in vals), 'single_trailing_lf'),
                       (kind.startswith('wsgi'), 'through_wsgi'), (model.lenient, 'lenient_nonsimple_accepted')):
        if flag:
            ctx.count(name)
    for e, _, _ in case['ops']:
        ctx.count('entry_' + e)
    if inj or nonascii or nonstr or multi or black:
        ctx.nontrivial(case, sample=case)


def check_shared_response(ctx, case):
    """One prepared HTTPResponse / HTTPError object answers several requests (the module-level error object idiom) while an error handler / the
    handler itself appends a header value to the application response afterwards: every response emits the prepared values plus ITS OWN appended
    value, once each and in order - never values appended while earlier requests were answered."""
    import ombott
    app = ombott.Ombott()
    cls = ombott.HTTPError if case['cls'] == 'HTTPError' else ombott.HTTPResponse
    prepared = cls(418, 'prepared') if cls is ombott.HTTPError else cls('prepared', 418)
    for v in case['own']:
        prepared.headers.append('Link', v)
    prepared.headers['X-Single'] = 'one'
    n = [0]

    def handler():
        n[0] += 1
        if case['how'] == 'raise':
            raise prepared
        return prepared
    app.route('/p', callback=handler)

    def on_418(err):
        app.response.headers.append('Link', 'appended-%d' % n[0])
        app.response.headers.append('X-Single', 'second-%d' % n[0])
        return 'handled'
    if case['cls'] == 'HTTPError':
        app.error(418)(on_418)
    else:
        app.add_hook('after_request', lambda: (app.response.headers.append('Link', 'appended-%d' % n[0]), app.response.headers.append('X-Single', 'second-%d' % n[0])))
    for k in range(1, 4):
        r = call_app(app, make_environ('GET', '/p'))
        if r.escaped is not None:
            raise CheckFailure(f'request {k}: exception escaped {fmt_exc(r.escaped)}')
        links = r.header_all('Link')
        singles = r.header_all('X-Single')
        want_links = list(case['own']) + ['appended-%d' % k]
        if case['cls'] != 'HTTPError':
            # (the after_request hook runs before the returned object is applied: its values are replaced by the prepared ones)
            if links != list(case['own']) or singles != ['one']:
                raise CheckFailure(f'request {k} answered by a prepared HTTPResponse ({case["how"]}): Link {links!r}, X-Single {singles!r}; prepared were {case["own"]!r} / ["one"]')
        elif links != want_links or singles != ['one', 'second-%d' % k]:
            raise CheckFailure(f'request {k} answered by one prepared HTTPError ({case["how"]}) whose handler appends a value: Link emitted as {links!r}, expected {want_links!r}; '
                               f'X-Single {singles!r}, expected {["one", "second-%d" % k]!r}')
        ctx.evals += 1
    if list(prepared.headers.get('Link') if isinstance(prepared.headers.get('Link'), list) else [prepared.headers.get('Link')] if prepared.headers.get('Link') else []) != list(case['own']):
        raise CheckFailure(f'the prepared response object itself now holds Link = {prepared.headers.get("Link")!r}; it was built with {case["own"]!r}')
    ctx.nontrivial('shared:' + repr(case))


def check_redirect(ctx, case):
    """redirect(target) writes the (joined) target into Location: whatever the target is, no value with CR / LF / NUL reaches the server; a clean target is
    answered with a 3xx whose Location decodes to a text that ends with the target."""
    import ombott
    app = ombott.app            # redirect() works on the module-level application's request / response
    box = {'t': case['target']}
    app.route('/__verif_redirect', callback=lambda: ombott.redirect(box['t'], case.get('code')), overwrite=True)
    r = call_app(app, make_environ('GET', '/__verif_redirect', headers={'Host': 'example.org'}))
    if r.escaped is not None:
        raise CheckFailure(f'redirect({case["target"]!r}) let an exception escape: {fmt_exc(r.escaped)}')
    for k, v in r.headers:
        if _has_ctl(v):
            raise CheckFailure(f'redirect({case["target"]!r}): emitted {k} contains CR/LF/NUL: {v!r} (status {r.status!r})')
        try:
            v.encode('latin1').decode('utf8')
        except UnicodeError:
            raise CheckFailure(f'redirect({case["target"]!r}): emitted {k} = {v!r} is not Latin-1 text whose bytes are UTF-8')
    if not _has_ctl(case['target']):
        if r.code not in (301, 302, 303, 307, 308):
            raise CheckFailure(f'redirect({case["target"]!r}) with a clean target answered {r.status!r}')
        loc = (r.header('Location') or '').encode('latin1').decode('utf8')
        if all(0x21 <= ord(c) < 0x7f for c in case['target']) and not loc.endswith(case['target'].lstrip('./')) and case['target'] not in loc:
            raise CheckFailure(f'redirect({case["target"]!r}): Location {loc!r} does not hold the target')
    ctx.evals += 1
    ctx.nontrivial('redirect:' + repr(case))


def check_static_download(ctx, case):
    """static_file(..., download=True / 'name') writes the file name into Content-Disposition: like every emitted value it must be a Latin-1 encodable
    native string whose bytes decode as UTF-8 to a text that holds the name; mimetype / charset arguments end up in Content-Type the same way."""
    import os, shutil, tempfile
    from vlib.static import serve_static
    d = tempfile.mkdtemp(prefix='verif-c14-')
    try:
        fname = case['fname']
        with open(os.path.join(d, fname), 'wb') as f:
            f.write(b'content')
        kw = {'download': case['download']}
        if case.get('mimetype'):
            kw['mimetype'] = case['mimetype']
        r = serve_static(fname, d, **kw)
        if r.escaped is not None or r.code != 200:
            raise CheckFailure(f'static_file({fname!r}, download={case["download"]!r}) answered {r.status!r} {fmt_exc(r.escaped) if r.escaped else r.errors[-300:]}')
        for k, v in r.headers:
            if _has_ctl(v):
                raise CheckFailure(f'static_file({fname!r}): emitted {k} contains CR/LF/NUL: {v!r}')
            try:
                back = v.encode('latin1').decode('utf8')
            except UnicodeError:
                raise CheckFailure(f'static_file({fname!r}, download={case["download"]!r}): emitted {k} = {v!r} is not Latin-1 text whose bytes are UTF-8')
            if k == 'Content-Disposition':
                want = fname if case['download'] is True else case['download']
                if want not in back:
                    raise CheckFailure(f'static_file({fname!r}, download={case["download"]!r}): Content-Disposition decodes to {back!r}, which does not hold the name {want!r}')
        if case['download'] and not any(k == 'Content-Disposition' for k, _ in r.headers):
            raise CheckFailure(f'static_file({fname!r}, download={case["download"]!r}): no Content-Disposition header')
        ctx.evals += 1
        ctx.nontrivial('static:' + repr(case))
    finally:
        shutil.rmtree(d, ignore_errors=True)


def check_threaded(ctx, case):
    """A 204/304 response with blacklisted entity headers on one thread while another thread serves any request on the same
    application: the blacklist must hold for every single-preemption schedule (the harness owns the schedule)."""
    import ombott
    from vlib.sched import Scheduler, BIG
    from checks.c08_threads import relevant
    status = case['status']
    app = ombott.Ombott()

    def nm():
        rs = app.response
        rs.status = status
        for k in sorted(BAD[status]) + ['X-Keep']:
            rs.headers[k] = 'v-' + k
        rs.headers.append('Content-Type', 'second/value')
        return ''

    def ok():
        app.response.headers['Content-Language'] = 'en'
        app.response.headers['X-Other'] = 'é'
        return 'ok'
    app.route('/nm', callback=nm)
    app.route('/ok', callback=ok)

    def run(order, schedule):
        res = {}
        fns = [lambda: res.__setitem__('nm', call_app(app, make_environ('GET', '/nm'))), lambda: res.__setitem__('ok', call_app(app, make_environ('GET', '/ok')))]
        if order:
            fns.reverse()
        sc = Scheduler(fns, schedule, relevant)
        sc.run()
        for e in sc.errors:
            if e is not None:
                raise CheckFailure(f'thread raised {fmt_exc(e)} under schedule {schedule}')
        r = res['nm']
        if r.code != status:
            raise CheckFailure(f'threaded: status {r.status!r}, handler set {status}; schedule {schedule}')
        leaked = [(k, v) for k, v in r.headers if k in BAD[status]]
        if leaked:
            raise CheckFailure(f'threaded: {status} response emitted blacklisted headers {leaked!r} while another thread was serving a request; order={order} schedule {schedule}')
        if ('X-Keep', 'v-X-Keep') not in r.headers:
            raise CheckFailure(f'threaded: {status} response lost its own header X-Keep: {r.headers!r}; schedule {schedule}')
        o = res['ok']
        if o.code != 200 or ('Content-Language', 'en') not in o.headers or o.header('X-Other') != 'é'.encode('utf8').decode('latin1'):
            raise CheckFailure(f'threaded: the plain request got {o.status!r} {o.headers!r}; schedule {schedule}')
        ctx.evals += 1
        ctx.nontrivial('thr:' + repr((status, order, schedule)))
        return sc.yields
    for order in (0, 1):
        y0 = run(order, [[0, BIG]])[0]
        for k in range(0, y0 + 1):
            run(order, [[0, k], [1, BIG], [0, BIG]])
        ctx.count('threaded_single_preemption_schedules', y0 + 1)


def run(ctx):
    if ctx.shard == 0:
        for st_ in (304, 204):
            ctx.guarded(check_threaded, {'threaded': True, 'status': st_})
    for name, case in load_corpus(ID):
        ctx.guarded(check_case, case)
        ctx.count('corpus')
    # small exhaustive grid: every entry point x every injection shape x position in a multi-value header
    if ctx.shard == 0:
        shapes = ['a\rb', 'a\nb', 'a\0b', '\rab', '\nab', '\0ab', 'ab\r', 'ab\n', 'ab\0', 'ab\r\n', 'ab\n\n', '\n', '\r', '\0', 'é\n', 'ab\n ',
                  'a,\r\n b', 'a;\r\n\tb=2', 'x\r\n \r\n\tSet-Cookie: a=b', '\r\n ', 'a\r\n ', 'a\n b', 'a\r b']
        for e in ['setitem', 'append', 'setdefault', 'content_type', 'content_length', 'expires', 'ctor_dict', 'ctor_pairs', 'ctor_kw']:
            for s in shapes:
                for pre in (0, 1, 2):
                    for kind in ('Response', 'HTTPResponse', 'HTTPError', 'wsgi_response', 'wsgi_returned'):
                        if e.startswith('ctor_') and kind in ('Response', 'wsgi_response'):
                            continue
                        if kind == 'HTTPError' and e in ('ctor_dict', 'ctor_pairs'):
                            continue
                        name = 'Allow' if e == 'ctor_kw' else 'X-Test'
                        ops = [['append', 'X-Test', ['str', f'v{i}']] for i in range(pre)] if not e.startswith('ctor_') else []
                        ops.append([e, name, ['str', s]])
                        ctx.guarded(check_case, {'kind': kind, 'status': 200, 'status_first': True, 'ops': ops})
        ctx.count('injection_grid')
        # text whose Latin-1 bytes happen to be well-formed UTF-8 (it looks like mojibake, but it is what was set) through every entry point
        for e in ['setitem', 'append', 'setdefault', 'content_type', 'ctor_dict', 'ctor_pairs', 'ctor_kw']:
            for v in ['Ã©', 'Â\xa0', 'â\x82¬', 'cafÃ©', 'Ã\x83Â©', 'é', 'Ã']:
                for kind in ('Response', 'HTTPResponse', 'wsgi_response', 'wsgi_returned'):
                    if e.startswith('ctor_') and kind in ('Response', 'wsgi_response'):
                        continue
                    ctx.guarded(check_case, {'kind': kind, 'status': 200, 'status_first': True, 'ops': [[e, 'Allow' if e == 'ctor_kw' else 'X-Test', ['str', v]]]})
        ctx.count('utf8_lookalike_grid')
        for fname in ('plain.txt', 'caf\xe9.txt', '\u65e5\u672c.pdf', 'na\xefve \u20ac.bin', 'a b;c.txt', '\xc3\xa9.txt', 'x\U0001f600.dat'):
            for download in (True, 'other name.txt', 'r\xe9sum\xe9.pdf', '\u65e5.txt', False):
                ctx.guarded(check_static_download, {'static': True, 'fname': fname, 'download': download})
        ctx.count('static_download_grid')
        bases = ['/next', 'next?x=1', 'http://example.org/a', 'https://other.example/b', 'mailto:a@b.example', 'app://open/x', '//cdn.example/y', 'caf\xe9/\u65e5', '']
        inj = ['', '\r\nSet-Cookie: a=b', '\nX: y', '\r', '\0', '\r\n\r\n<html>', '%0d%0a', '\r\n ', '\t']
        for b_ in bases:
            for i_ in inj:
                for where in ('end', 'mid'):
                    t = b_ + i_ if where == 'end' else b_[:len(b_) // 2] + i_ + b_[len(b_) // 2:]
                    ctx.guarded(check_redirect, {'redirect': True, 'target': t})
        ctx.count('redirect_grid')
        for cls_ in ('HTTPError', 'HTTPResponse'):
            for how in ('raise', 'return'):
                for own in ([], ['a'], ['a', 'b'], ['a', 'b', 'c']):
                    ctx.guarded(check_shared_response, {'shared_response': True, 'cls': cls_, 'how': how, 'own': own})
        ctx.count('shared_response_object_grid')
        # set_cookie with every injection shape, plain / quoted / half-quoted, next to a clean header
        for s in shapes + ['abc\r\nX-Injected:1', 'abc\0', 'a\r\nSet-Cookie:z=1']:
            for q in ('%s', '"%s"', '"%s', '%s"', "'%s'"):
                for kind in ('Response', 'HTTPResponse', 'HTTPError', 'wsgi_response', 'wsgi_returned', 'wsgi_raised'):
                    ctx.guarded(check_case, {'kind': kind, 'status': 200, 'status_first': True,
                                             'ops': [['setitem', 'X-Test', ['str', 'v']], ['set_cookie', 'c', ['str', q % s]]]})
        ctx.count('cookie_injection_grid')
        for sh in shapes[:8] + ['clean']:
            for kind in ('HTTPResponse', 'wsgi_returned', 'wsgi_raised'):
                ctx.guarded(check_case, {'kind': kind, 'status': 200, 'status_first': True, 'ops': [['ctor_hd', 'X-Test', ['str', sh]], ['append', 'X-Other', ['str', 'v']]]})
                ctx.guarded(check_case, {'kind': kind, 'status': 200, 'status_first': True, 'ops': [['ctor_hd', 'X-Other', ['str', 'v']], ['ctor_hd', 'X-Test', ['str', sh]]]})
        # a value appended to a COPY of the header dict (of a single-, two- and three-valued header) never shows up in the response
        for nvals in (1, 2, 3):
            for kind in ('Response', 'HTTPResponse', 'wsgi_response', 'wsgi_returned'):
                ops = [['append', 'Vary', ['str', 'v%d' % i]] for i in range(nvals)] + [['copy_then_append', 'Vary', ['str', 'only-on-the-copy']], ['append', 'Vary', ['str', 'last']]]
                ctx.guarded(check_case, {'kind': kind, 'status': 200, 'status_first': True, 'ops': ops})
        ctx.count('headerdict_instance_and_copy_grid')
        # a stored value that passes through a setter a second time (read and written back; the whole response copied), and subclasses of the scalar types
        for txt in ('v', 'é', 'Ω', 'Ã©', '日本'):
            for kind in ('Response', 'HTTPResponse', 'HTTPError', 'wsgi_response', 'wsgi_returned'):
                for via_copy in (False, True):
                    for ops in ([['setitem', 'X-Test', ['str', txt]], ['read_write_back', 'X-Test', ['none', None]]],
                                [['append', 'X-Test', ['str', 'first']], ['append', 'X-Test', ['str', txt]], ['read_write_back', 'X-Test', ['none', None]], ['read_write_back', 'X-Test', ['none', None]]],
                                [['setitem', 'X-Test', ['str', txt]]]):
                        ctx.guarded(check_case, {'kind': kind, 'status': 200, 'status_first': True, 'ops': ops, 'via_copy': via_copy})
        for t in ('intsub', 'floatsub', 'strsub'):
            for txt in ('v', 'é', 'a\r\nX: y', 'a\nb', '\0', '\r'):
                for e in ('setitem', 'append', 'setdefault', 'content_length', 'content_type', 'ctor_kw', 'ctor_dict'):
                    for kind in ('Response', 'HTTPResponse', 'wsgi_returned'):
                        if e.startswith('ctor_') and kind == 'Response':
                            continue
                        ctx.guarded(check_case, {'kind': kind, 'status': 200, 'status_first': True, 'ops': [[e, 'Xtest' if e == 'ctor_kw' else 'X-Test', [t, txt if t == 'strsub' else [7, txt]]]]})
        ctx.count('second_pass_and_scalar_subclass_grid')
    n = 4000 if ctx.tier == 'quick' else 40000
    ctx.hyp(case_st(), check_case, n)


def replay(ctx, case):
    if case.get('shared_response'):
        return check_shared_response(ctx, case)
    if case.get('redirect'):
        return check_redirect(ctx, case)
    if case.get('static'):
        return check_static_download(ctx, case)
    if 'threaded' in case:
        return check_threaded(ctx, case)
    check_case(ctx, case)
