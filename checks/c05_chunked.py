"""C05  Chunked transfer decoding is exact and rejects every truncation."""
from hypothesis import strategies as st

from vlib.core import CheckFailure, load_corpus, fmt_exc
from vlib.encoders import encode_chunked
from vlib.wsgi import FragStream, make_environ, call_app

ID = 'C05'
LEVEL = 'fault_enumeration'
RULE = ('case = (payload, chunk sizes, per-chunk hex case / leading zeros (0-3, and 14-40: size fields longer than any fixed-width parse) / token or quoted-string extension (escaped quotes, separators inside the quotes), last-chunk extension, 1-5000 chunks, '
        'trailers, buffer >= longest size line, read-fragmentation caps; through WSGI also with an additional Content-Length header of 0 / wire length / 3 / too large, which the transfer coding overrides, with Transfer-Encoding spelled as a list ending in chunked (any letter case, blanks, empty elements) and with any Content-Type incl. multipart over a well-formed multipart payload with epilogue). Encoded by the harness encoder. For each '
        'encoding: (1) legal decode through _body_read and through WSGI must equal the payload; (2) EVERY strict prefix '
        'that ends before the complete zero-size chunk line must raise BodyParsingError (400 through WSGI); (3) each '
        'chunk CRLF deleted / replaced must be rejected; (4) every single-byte substitution in framing bytes '
        '(size lines, CRLFs, last chunk) by a sampled set of bytes must end in acceptance or BodyParsingError/4xx, '
        'nothing else, every ACCEPTED body must have been ended by a consumed zero-size chunk line, and EVERY substitution inside the CRLF after chunk data must be rejected. evaluations = decoder runs. Non-trivial legal case = >=2 chunks or an extension/trailer or a '
        'chunk larger than the buffer under short reads; every (encoding, fault) pair counts as one distinct '
        'non-trivial fault case.')
ASSUMPTIONS = ['the configured buffer is at least as long as the longest chunk-size line (the scanner bounds a size line by the buffer)',
               'short reads allowed, b"" only at EOF']

TOK = 'abcXYZ019-_.!'
SUBST = [0x00, 0x0a, 0x0d, 0x20, 0x09, 0x30, 0x31, 0x3b, 0x3d, 0x41, 0x46, 0x47, 0x66, 0x67, 0x2d, 0x2b, 0x78, 0x5f, 0xff]


# chunk extensions whose value is a quoted-string (RFC 7230 4.1.1), incl. escaped quotes / backslashes and separators inside the quotes
QUOTED_EXTS = ['a="x y"', 'a="1;2"', 'who="Mr \\"X"', 'k="\\""', 'a="say \\"hi\\""', 'q="\\\\"', 'a="";b="\\"";c', 'n=""', 'a="=";b=c', 'x="\\"\\"\\""', 'a = "b"', 't="\t"']


def _strategy():
    ext = st.one_of(st.none(), st.text(TOK, min_size=1, max_size=6),
                    st.builds(lambda a, b: f'{a}={b}', st.text(TOK, min_size=1, max_size=4), st.text(TOK, min_size=1, max_size=4)),
                    st.sampled_from(QUOTED_EXTS))
    payload = st.one_of(st.binary(max_size=30), st.binary(max_size=100),
                        st.lists(st.sampled_from([b'\r\n', b'0', b'\r', b'\n', b'a', b'5', b';', b'0\r\n\r\n']), max_size=30).map(b''.join))
    return st.fixed_dictionaries({
        'payload': payload,
        'sizes': st.one_of(st.lists(st.integers(1, 6), min_size=1, max_size=10), st.lists(st.integers(1, 40), max_size=8)),
        'spell': st.lists(st.fixed_dictionaries({'upper': st.booleans(), 'zeros': st.one_of(st.integers(0, 3), st.integers(0, 3), st.sampled_from([14, 15, 16, 17, 24, 40]))}), min_size=1, max_size=4),
        'exts': st.lists(ext, min_size=1, max_size=3),
        'last_ext': st.one_of(st.just(''), st.text(TOK, min_size=1, max_size=5)),
        'last_zeros': st.one_of(st.integers(0, 2), st.sampled_from([15, 16, 17, 30])),
        'trailers': st.lists(st.sampled_from(['X-A: b', 'Foo: bar', 'E:']), max_size=2),
        'final_crlf': st.booleans(),
        'buf_extra': st.one_of(st.integers(0, 3), st.integers(0, 40)),
        'pattern': st.one_of(st.just([]), st.lists(st.integers(1, 6), min_size=1, max_size=6),
                             st.lists(st.integers(1, 50), min_size=1, max_size=8)),
    })


def build(case):
    enc, layout = encode_chunked(case['payload'], case['sizes'], case['spell'], case['exts'], case['last_ext'],
                                 case['last_zeros'], case['trailers'], case['final_crlf'])
    longest = max(e - s for k, s, e in layout if k in ('size', 'last'))
    buf = longest + case['buf_extra']
    return enc, layout, buf


def decode_direct(data, buf, pattern):
    """Returns ('ok', body) | ('reject', None); any other exception is a CheckFailure."""
    from ombott.request_pkg.body_mixin import _body_read
    from ombott.request_pkg.errors import BodyParsingError
    stream = FragStream(data, pattern)
    try:
        body = _body_read(stream.read, buf, chunked=True)
    except BodyParsingError:
        return 'reject', None
    except Exception as e:
        raise CheckFailure(f'decoder raised {type(e).__name__} (not BodyParsingError): {fmt_exc(e)}')
    body.seek(0)
    out = body.read()
    body.close()
    # whatever was accepted must have been ended by a zero-size chunk line: the last line the decoder consumed denotes size 0
    consumed = data[:stream.pos]
    line = consumed[:-2] if consumed.endswith(b'\r\n') else consumed
    line = line[line.rfind(b'\r\n') + 2:] if b'\r\n' in line else line
    digits = line.replace(b'\r', b'').split(b';')[0].strip()
    try:
        zero = int(digits, 16) == 0
    except ValueError:
        zero = False
    if not consumed.endswith(b'\r\n') or not zero:
        raise CheckFailure(f'a body ({out[:60]!r}) was presented as complete although the decoder did not stop at a zero-size chunk line: it consumed {consumed[-40:]!r} '
                           f'of {data[:160]!r} (buf={buf}, pattern={pattern})')
    return 'ok', out


TE_SPELLINGS = ['chunked', 'chunked', 'Chunked', 'CHUNKED', ' chunked ', 'chunked,', 'chunked, ', 'gzip, chunked', 'gzip,chunked', ',chunked', 'gzip, chunked ,', 'identity , chunked', ', chunked,']
CTYPES = [None, None, 'application/octet-stream', 'multipart/form-data; boundary=bnd', 'text/plain', 'multipart/mixed; boundary=bnd', 'application/json']
MP_PAYLOAD = (b'--bnd\r\nContent-Disposition: form-data; name="a"\r\n\r\nvalue one\r\n--bnd\r\nContent-Disposition: form-data; name="f"; filename="x.bin"\r\n\r\nfile data\r\n--bnd--'
              b'\r\nepilogue line one\r\nepilogue line two that is long enough to fill several further chunks of the coding\r\n')


def decode_wsgi(data, buf, pattern):
    import ombott
    cfg = {'max_memfile_size': buf}
    if decode_wsgi.payload_len is not None and getattr(decode_wsgi, 'n', 0) % 4 == 1:
        cfg['max_body_size'] = decode_wsgi.payload_len + (getattr(decode_wsgi, 'n', 0) // 4) % 2          # a limit the payload just fits (equal, or one above): no say in the decoding
    app = ombott.Ombott(cfg)

    @app.route('/c', method='POST')
    def h():
        return app.request.body.read()

    # a chunked request may also carry a Content-Length header (the transfer coding overrides it): rotate through none / 0 / wire length / small
    decode_wsgi.n = getattr(decode_wsgi, 'n', 0) + 1
    cl = [None, None, 0, len(data), 3, len(data) + 50][decode_wsgi.n % 6]
    # the header value is a list that ends with the chunked coding (RFC 7230 3.3.1; empty list elements and blanks are legal), in any letter case;
    # the body's media type (also a multipart one) has no say in the transfer coding
    te = TE_SPELLINGS[decode_wsgi.n % len(TE_SPELLINGS)]
    headers = {'Transfer-Encoding': te}
    ct = decode_wsgi.ctype or CTYPES[(decode_wsgi.n // 3) % len(CTYPES)]
    if ct:
        headers['Content-Type'] = ct
    # a server may put the wsgi.input_terminated key into the environ with a FALSE value (it did not de-chunk): the coding is the application's to decode
    extra = [None, None, {'wsgi.input_terminated': False}, {'wsgi.input_terminated': 0}, {'wsgi.input_terminated': None}][(decode_wsgi.n // 2) % 5]
    env = make_environ('POST', '/c', stream=FragStream(data, pattern), content_length=cl, headers=headers, extra=extra)
    r = call_app(app, env)
    if r.escaped is not None:
        raise CheckFailure(f'exception escaped the app: {fmt_exc(r.escaped)}')
    if r.code == 200:
        return 'ok', r.body
    if r.code is not None and 400 <= r.code < 500:
        if r.errors:
            raise CheckFailure(f'traceback on wsgi.errors with status {r.status}: {r.errors[-300:]}')
        return 'reject', None
    raise CheckFailure(f'status {r.status!r} for a chunked body; wsgi.errors: {r.errors[-500:]}')


decode_wsgi.ctype = None
decode_wsgi.payload_len = None


def check_case(ctx, case):
    decode_wsgi.ctype = case.get('ctype')
    decode_wsgi.payload_len = len(case['payload'])
    try:
        return _check_case(ctx, case)
    finally:
        decode_wsgi.ctype = None
        decode_wsgi.payload_len = None


def _check_case(ctx, case):
    payload = case['payload']
    enc, layout, buf = build(case)
    pattern = case['pattern']
    only = case.get('fault')
    nchunks = sum(1 for k, _, _ in layout if k == 'size')

    def legal(via, dec):
        ctx.evals += 1
        kind, out = dec(enc, buf, pattern)
        if kind != 'ok':
            raise CheckFailure(f'legal chunked encoding rejected ({via}): enc={enc!r} buf={buf} pattern={pattern}')
        if out != payload:
            raise CheckFailure(f'decoded body differs ({via}): enc={enc!r} buf={buf} pattern={pattern}: got {out!r}, '
                               f'expected {payload!r}')
    if case.get('mode') == 'legal_only':
        # very long encodings: the legal decode and a stride of truncations only (the fault enumeration is quadratic in the length)
        legal('direct', decode_direct)
        for _ in range(4):
            legal('wsgi', decode_wsgi)
        last = [x for x in layout if x[0] == 'last'][0]
        for cut in range(1, last[2], max(1, last[2] // 12)):
            ctx.evals += 1
            kind, out = decode_direct(enc[:cut], buf, pattern)
            if kind != 'reject':
                raise CheckFailure(f'truncated encoding of {nchunks} chunks accepted: cut at {cut} of {len(enc)}')
            if cut % 5 == 1:
                ctx.evals += 1
                if decode_wsgi(enc[:cut], buf, pattern)[0] != 'reject':
                    raise CheckFailure(f'truncated encoding of {nchunks} chunks accepted through WSGI: cut at {cut} of {len(enc)}')
        ctx.count('legal_many_chunks')
        ctx.nontrivial(('legal', enc, buf, tuple(pattern)))
        return
    if only is None:
        legal('direct', decode_direct)
        legal('wsgi', decode_wsgi)
        big = any(e - s > buf for k, s, e in layout if k == 'data')
        if nchunks >= 2 or any(case['exts']) or case['last_ext'] or case['trailers'] or (big and pattern):
            ctx.nontrivial(('legal', enc, buf, tuple(pattern)), sample={'enc': enc, 'buf': buf, 'pattern': pattern})
        ctx.count('legal')
        if pattern:
            ctx.count('legal_with_short_reads')
        if big:
            ctx.count('legal_chunk_larger_than_buffer')
        if nchunks >= 2:
            ctx.count('legal_multi_chunk')

    # ---- (2) every strict prefix before the end of the zero-size chunk line
    last = [x for x in layout if x[0] == 'last'][0]
    wsgi_every = 1 if case.get('ctype') else 7
    for cut in range(0, last[2]):
        if only is not None and only != ['cut', cut]:
            continue
        ctx.evals += 1
        kind, out = decode_direct(enc[:cut], buf, pattern)
        if kind != 'reject':
            raise CheckFailure(f'truncated encoding accepted: enc={enc!r} cut at {cut} -> body {out!r} (buf={buf}, '
                               f'pattern={pattern}); fault=["cut",{cut}]')
        if cut % wsgi_every == 3 % wsgi_every or only is not None:
            ctx.evals += 1
            kind, out = decode_wsgi(enc[:cut], buf, pattern)
            if kind != 'reject':
                raise CheckFailure(f'truncated encoding accepted through WSGI: enc={enc!r} cut at {cut} -> {out!r}')
        ctx.nontrivial(('cut', enc, cut, buf, tuple(pattern)))
        ctx.count('fault_truncations')

    # ---- (3) CRLF after chunk data deleted / replaced
    for idx, (k, s, e) in enumerate(layout):
        if k != 'crlf':
            continue
        for name, repl in (('del', b''), ('lfcr', b'\n\r'), ('xx', b'xx'), ('cr_only', b'\r'), ('lf_only', b'\n'),
                           ('crx', b'\rx'), ('xlf', b'x\n')):
            if only is not None and only != ['crlf', idx, name]:
                continue
            bad = enc[:s] + repl + enc[e:]
            ctx.evals += 1
            kind, out = decode_direct(bad, buf, pattern)
            if kind != 'reject':
                raise CheckFailure(f'chunk data not followed by CRLF was accepted: enc={bad!r} ({name} at {s}) -> {out!r}; '
                                   f'fault=["crlf",{idx},"{name}"]')
            if case.get('ctype') and decode_wsgi(bad, buf, pattern)[0] != 'reject':
                raise CheckFailure(f'chunk data not followed by CRLF was accepted through WSGI (Content-Type {case["ctype"]}): enc={bad!r} ({name} at {s}); '
                                   f'fault=["crlf",{idx},"{name}"]')
            ctx.nontrivial(('crlf', enc, idx, name, buf, tuple(pattern)))
            ctx.count('fault_missing_crlf')

    # ---- (4) single-byte substitutions in framing bytes: acceptance or client error only
    for k, s, e in layout:
        if k not in ('size', 'crlf', 'last'):
            continue
        for pos in range(s, e):
            for bi, bval in enumerate(SUBST):
                if bval == enc[pos]:
                    continue
                if k != 'crlf' and (pos * 31 + bi * 7 + len(enc)) % 3 and only is None:      # deterministic 1/3 sample per position
                    continue
                if only is not None and only != ['subst', pos, bval]:
                    continue
                bad = enc[:pos] + bytes([bval]) + enc[pos + 1:]
                ctx.evals += 1
                try:
                    kind, out = decode_direct(bad, buf, pattern)
                    if (pos + bi) % 11 == 0:
                        ctx.evals += 1
                        decode_wsgi(bad, buf, pattern)
                except CheckFailure as f:
                    raise CheckFailure(f'{f}; corrupted framing enc={bad!r} fault=["subst",{pos},{bval}]')
                if k == 'crlf' and kind != 'reject':
                    # any substitution inside the CRLF that must follow a chunk's data leaves the data not followed by CRLF
                    raise CheckFailure(f'chunk data not followed by CRLF was accepted: enc={bad!r} (byte {pos} replaced by {bval:#x}) -> {out!r}; '
                                       f'fault=["subst",{pos},{bval}]')
                ctx.nontrivial(('subst', enc, pos, bval, buf, tuple(pattern)))
                ctx.count('fault_framing_corruption_' + kind)


# ------------------------------------------------------------------ coverage-guided tier (atheris)
def check_form_over_chunked(ctx, case):
    """A urlencoded / JSON document sent in the chunked coding and read through request.forms / request.json: it is either refused (4xx) or delivered
    complete - never a prefix of it presented as the whole (sizes around max_memfile_size)."""
    import json as _json
    import ombott
    n, buf = case['n'], case['buf']
    if case['doc'] == 'form':
        fields = [('f%d' % i, 'v' * 7) for i in range(max(1, n // 12))] + [('tail', 'end')]
        body = '&'.join('%s=%s' % kv for kv in fields).encode()
        ctype, want = 'application/x-www-form-urlencoded', dict(fields)
    else:
        want = {'a': 'x' * n, 'tail': 'end'}
        body = _json.dumps(want).encode()
        ctype = 'application/json'
    wire, _ = encode_chunked(body, case['sizes'])
    app = ombott.Ombott({'max_memfile_size': buf})
    seen = {}

    @app.route('/f', method='POST')
    def h():
        seen['v'] = dict(app.request.forms) if case['doc'] == 'form' else app.request.json
        return 'ok'
    r = call_app(app, make_environ('POST', '/f', stream=FragStream(wire, case.get('pattern') or []), content_length=None, headers={'Transfer-Encoding': 'chunked', 'Content-Type': ctype}))
    if r.escaped is not None:
        raise CheckFailure(f'exception escaped: {fmt_exc(r.escaped)}')
    ctx.evals += 1
    if r.code == 200:
        if seen.get('v') != want:
            got = seen.get('v')
            raise CheckFailure(f'{case["doc"]} of {len(body)} bytes in the chunked coding (max_memfile_size {buf}): accepted, but delivered {len(got) if hasattr(got, "__len__") else got!r} entries / '
                               f'keys {sorted(got)[-3:] if isinstance(got, dict) else got!r}; sent {len(want)} entries ending with "tail"')
        ctx.count('chunked_document_delivered_complete')
    elif not (400 <= (r.code or 0) < 500):
        raise CheckFailure(f'{case["doc"]} of {len(body)} bytes in the chunked coding answered {r.status!r}')
    else:
        ctx.count('chunked_document_refused')
    ctx.nontrivial(('doc', case['doc'], n, buf, tuple(case['sizes'][:3])))


def fuzz_decode(data):
    """bytes -> case.  Byte 0: mode (legal encoding built by the harness encoder | raw bytes offered as a chunked body)."""
    if len(data) < 6:
        return None
    mode, b1, b2, b3, b4 = data[0], data[1], data[2], data[3], data[4]
    rest = data[5:]
    if mode % 3 == 0:
        return {'raw': bytes(rest), 'buf': 4 + b1 % 60, 'pattern': [1 + (b2 >> i) % 7 for i in range(b3 % 4)]}
    nsz = 1 + b1 % 8
    sizes = [1 + x % 40 for x in rest[:nsz]]
    payload = bytes(rest[nsz:])
    return {'payload': payload, 'sizes': sizes, 'spell': [{'upper': bool(b2 & 1), 'zeros': (b2 >> 1) % 3}, {'upper': bool(b2 & 8), 'zeros': 0}],
            'exts': [None, 'a=b', 'x'][: 1 + b3 % 3], 'last_ext': ['', 'q'][b3 >> 7], 'last_zeros': (b3 >> 4) % 3, 'trailers': [[], ['X-A: b']][b4 & 1],
            'final_crlf': bool(b4 & 2), 'buf_extra': (b4 >> 2) % 8, 'pattern': [1 + (b4 >> 5) % 7, 1 + b1 % 5][: (b2 >> 4) % 3], 'cut': (b1 * 256 + b2)}


def fuzz_one(ctx, case):
    if 'raw' in case:
        # arbitrary bytes as a chunked body: accepted or a parsing error, nothing else (and no hang: libFuzzer -timeout)
        kind, body = decode_direct(case['raw'], case['buf'], case['pattern'])
        return
    enc, layout, buf = build(case)
    kind, body = decode_direct(enc, buf, case['pattern'])
    if kind != 'ok' or body != case['payload']:
        raise CheckFailure(f'legal chunked encoding {enc[:120]!r} buf={buf} pattern={case["pattern"]}: {kind} {body[:60] if body else body!r}, payload {case["payload"][:60]!r}')
    last = [s for k, s, e in layout if k == 'last'][0]
    end_of_last_line = [e for k, s, e in layout if k == 'last'][0]
    cut = case['cut'] % end_of_last_line
    kind, body = decode_direct(enc[:cut], buf, case['pattern'])
    if kind != 'reject':
        raise CheckFailure(f'truncated encoding accepted: enc={enc[:120]!r} cut at {cut} -> body {body[:60]!r} (buf={buf}, pattern={case["pattern"]})')


def run(ctx):
    for name, case in load_corpus(ID):
        ctx.guarded(check_case, case)
        ctx.count('corpus')
    if ctx.shard == 0:
        base = {'spell': [{'upper': False, 'zeros': 0}], 'last_ext': '', 'last_zeros': 0, 'trailers': [], 'final_crlf': True, 'buf_extra': 8, 'pattern': []}
        # every quoted-string extension on chunks whose payload itself holds quotes, CRLF and framing-like bytes
        for qe in QUOTED_EXTS:
            for payload in (b'HELLO WORLD', b'"\r\nHELLO\r\n3\r\n0\r\n\r\n', b'a"b"c\r\n0\r\n\r\n"', b'"'):
                for sizes in ([4], [8, 3], [1], [100]):
                    ctx.guarded(check_case, dict(base, payload=payload, sizes=sizes, exts=[qe], last_ext='', pattern=[]))
                    ctx.guarded(check_case, dict(base, payload=payload, sizes=sizes, exts=[qe, None], pattern=[3]))
        ctx.count('quoted_extension_grid')
        # number of chunks: 1 .. 5000 one- and two-byte chunks (around every plausible recursion / list limit)
        for nch in (1, 10, 100, 500, 900, 990, 1000, 1010, 1500, 3000, 5000):
            for size in (1, 2):
                for pattern in ([], [7]):
                    ctx.guarded(check_case, dict(base, payload=bytes(65 + i % 26 for i in range(nch * size)), sizes=[size] * nch, exts=[None], pattern=pattern, mode='legal_only'))
        ctx.count('chunk_count_grid')
        # a well-formed multipart document with an epilogue as payload under a multipart content type: the coding is decoded and validated to its end
        for sizes in ([16], [40, 9], [len(MP_PAYLOAD) - 60, 7], [1000]):
            for ct in ('multipart/form-data; boundary=bnd', 'multipart/mixed; boundary=bnd'):
                ctx.guarded(check_case, dict(base, payload=MP_PAYLOAD, sizes=sizes, exts=[None], pattern=[], ctype=ct, buf_extra=40))
        ctx.count('multipart_payload_grid')
        # one chunk / two chunks / many chunks whose total is exactly what a configured max_body_size allows (the legal decode runs through WSGI four times: two of them with the limit)
        for total in (1, 16, 100):
            for sizes in ([total], [total // 2 + 1, total], [1] * total):
                for _ in range(2):
                    ctx.guarded(check_case, dict(base, payload=bytes(65 + i % 26 for i in range(total)), sizes=sizes, exts=[None], pattern=[], mode='legal_only'))
        ctx.count('limit_sized_payload_grid')
        for doc in ('form', 'json'):
            for buf in (64, 1000, 102400):
                for n in (buf // 2, buf - 30, buf, buf + 30, 2 * buf, 3 * buf + 7):
                    for sizes in ([33], [buf], [1000000]):
                        ctx.guarded(check_form_over_chunked, {'form_over_chunked': True, 'doc': doc, 'n': n, 'buf': buf, 'sizes': sizes, 'pattern': []})
        ctx.count('document_over_chunked_grid')
    n = 900 if ctx.tier == 'quick' else 6000
    ctx.hyp(_strategy(), check_case, n)
    if ctx.tier == 'thorough' and ctx.shard < 4:
        from vlib import fuzz
        seeds = [] if ctx.shard % 2 else [bytes([1, 3, 2, 1, 7]) + b'\x05\x06\x03hello world, chunked', bytes([0, 9, 2, 1, 0]) + b'5\r\nhello\r\n0\r\n\r\n']
        fuzz.campaign(ctx, __import__('checks.c05_chunked', fromlist=['x']), runs=150000, max_len=300, seeds=seeds)


def replay(ctx, case):
    if case.get('form_over_chunked'):
        return check_form_over_chunked(ctx, case)
    if 'raw' in case or 'cut' in case:
        return fuzz_one(ctx, case)
    check_case(ctx, case)
