"""C03  Every request gets exactly one well-formed WSGI response."""
from hypothesis import strategies as st

from vlib import programs as P
from vlib.core import CheckFailure, load_corpus, fmt_exc
from vlib.wsgi import make_environ, call_app, validate, call_app_watchdog, Hang

ID = 'C03'
LEVEL = 'exploration'
RULE = ('plus static_file() as the outcome under a grid of Range spellings (ends at / beyond the end of the file) x file_wrapper x GET/HEAD: Content-Length equals the bytes returned; case = handler program (data, interpreted by vlib/programs.py): outcome in {str, bytes, empty, None, list / generator / custom iterable object (own '
        'close(), __iter__ returning a separate iterator) of str or bytes with leading empty items, generator or iterable failing at the first next(), file-like '
        'with / without close and __iter__, real seekable streams already read up to an offset, with / without wsgi.file_wrapper, HTTPResponse / HTTPError returned, raised or yielded first, nested up to 3 deep, '
        'one response object shared by all requests, exception of a generated class (RuntimeError, ValueError, KeyError, Unicode*Error, OSError, StopIteration, a custom class ...) in the handler}; request paths with and without non-ASCII tails; status set on the response or on the returned object from {100,101,102,103,199, '
        '200,201,204,205,299 Custom,304,404,418,500,999} and string status lines (valid with surrounding blanks; malformed: four digits, glued reason, decimal point, leading zero / sign, two digits, full-width digits - these must end as a well-formed 500); iterables / files whose close() raises; start_response must have been called exactly once; headers, cookies, optional explicit Content-Length; 0-3 before-hooks (ok / raise / raise a response) and '
        '0-3 after-hooks; custom error handlers for 404/405/418/500 returning str / bytes / generator / a response object / the same error again, or raising; a before-hook that rewrites PATH_INFO (routing must see the rewritten path); request method GET, HEAD, POST, PUT, DELETE, '
        'OPTIONS; path hits the route, misses it (404) or uses a verb that is not registered (405). Every program is served three times on one application (later '
        'requests with a longer URL). Oracle: independent PEP 3333 validator (exactly one start_response before the first chunk, status line, header list of '
        '(str, str) Latin-1 without control characters, chunks are bytes), nothing escapes and the request finishes under a 10 s watchdog; empty body for HEAD / 1xx / 204 / 304; a Content-Length the program '
        'did not set on a response that may carry a body equals len(body); every tracked handler iterable whose items reached the framework is closed exactly '
        'once (never twice); handler / hook / first-next failures give 500 and the predicted status otherwise; hook log == before-hooks in registration order '
        'up to the failing one, all before routing (ombott.route absent), handler, then every after-hook once in reverse order. Non-trivial = anything but '
        '"plain str, no hooks, GET, 200"; distinct by program hash.')
ASSUMPTIONS = ['out of the domain (stated by the property or the code contract): mixed str/bytes items, failures after the first chunk, bodies the charset cannot encode, '
               'catchall=False, lower-case request methods, failing after-hooks', 'the server calls close() on the returned iterable exactly once',
               'iterables that yielded nothing or only a response object are not judged for close ("that produced output")']

METHODS = ['GET', 'GET', 'GET', 'HEAD', 'HEAD', 'POST', 'PUT', 'DELETE', 'OPTIONS']
STREAM_TYPES = ['text/event-stream', 'text/event-stream; charset=utf-8', 'application/json', 'application/x-ndjson', 'multipart/x-mixed-replace; boundary=f', 'application/octet-stream', 'text/csv']
HSAFE = st.sampled_from(['v', 'é', 'a b', '1', 'x;y'])


@st.composite
def case_st(draw):
    return {
        'method': draw(st.sampled_from(METHODS)), 'target': draw(st.sampled_from(['hit', 'hit', 'hit', 'hit', 'miss', 'wrongverb'])),
        'out': draw(P.outcome_st()),
        'resp_status': draw(st.sampled_from([None, None] + P.STATUSES)),
        'resp_headers': draw(st.lists(st.one_of(st.tuples(st.sampled_from(['X-H', 'Etag', 'Content-Type', 'Vary']), HSAFE),
                                                st.tuples(st.just('Content-Type'), st.sampled_from(STREAM_TYPES))), max_size=2)),
        'domain_map': draw(st.sampled_from([0, 0, 0, 1, 2])),        # 1: virtual-host configuration; 2: ... and the request carries no Host header at all (HTTP/1.0 client)
        'cookies': draw(st.lists(st.tuples(st.sampled_from(['c1', 'c2']), st.sampled_from(['v', 'a b', 'é'])), max_size=2)),
        'explicit_cl': draw(st.sampled_from([None, None, None, 3, 0])),
        'before': draw(st.lists(st.sampled_from(['ok', 'ok', 'ok', 'raise', 'raise_response', 'remove_self', 'rewrite_path']), max_size=3)),
        'after': draw(st.lists(st.sampled_from(['ok', 'ok', 'ok', 'remove_self', 'add_after']), max_size=3)),
        'handlers': draw(st.dictionaries(st.sampled_from(['404', '405', '418', '500']), st.sampled_from(['str', 'bytes', 'gen', 'raise', 'empty', 'http_response', 'error_again']), max_size=2)),
        'file_wrapper': draw(st.booleans()),
        'path_tail': draw(st.sampled_from(['', '', '', 'é', '日本', 'über/ü', '%41', 'a b', '\U0001F600'])),
    }


def serve(case, app_box, reqno):
    """One request of the program on the case's application. Returns (result, hook log, tracked objects, flags)."""
    import ombott
    app = app_box['app']
    box = app_box
    log = app_box['log']
    del log[:]
    tr = P.Track()
    app_box['tr'] = tr
    app_box['reqno'] = reqno
    tail = case.get('path_tail') or ''
    path = {'hit': '/h' + ('/' + tail if tail else ''), 'miss': '/nothing/here' + tail, 'wrongverb': '/w' + ('/' + tail if tail else '')}[case['target']]
    qs = 'n=%d&pad=%s' % (reqno, 'p' * (17 * reqno))
    extra = {}
    if case['file_wrapper']:
        extra['wsgi.file_wrapper'] = P.ServerFileWrapper
    if 'rewrite_path' in case['before']:
        # the client asks for a legacy location; a before_request hook maps it onto the real one (hooks run before routing)
        box['real_path'] = path
        path = '/legacy-location/of' + path
    env = make_environ(case['method'], path, qs=qs, extra=extra)
    if case.get('domain_map') == 2:
        env.pop('HTTP_HOST', None)
    r = call_app_watchdog(app, env, 10)
    if isinstance(r.escaped, Hang):
        raise CheckFailure(f'request did not finish within 10 s: {case}')
    return r, list(log), tr


def make_app(case):
    import ombott
    if case.get('domain_map'):
        app = ombott.Ombott({'domain_map': (lambda host: 'blog' if host and host.startswith('blog.') else None), 'app_name_header': 'HTTP_X_APP_NAME'})
    else:
        app = ombott.Ombott()
    log = []
    box = {'app': app, 'log': log, 'shared': {}}

    def handler():
        log.append('handler')
        rs = app.response
        if case['resp_status'] is not None:
            rs.status = case['resp_status']
        for k, v in case['resp_headers']:
            rs.headers[k] = v
        for n, v in case['cookies']:
            rs.set_cookie(n, v)
        if case['explicit_cl'] is not None:
            rs.headers['Content-Length'] = case['explicit_cl']
        how, obj = P.build(case['out'], box['tr'], box['shared'], box['reqno'])
        if how == 'raise':
            raise obj
        return obj
    app.route('/h', method=['GET', 'POST', 'PUT', 'DELETE', 'OPTIONS'], callback=handler)
    app.route('/w', method='PATCH', callback=handler)
    app.route('/h/<tail:path>', method=['GET', 'POST', 'PUT', 'DELETE', 'OPTIONS'], callback=lambda tail: handler())
    app.route('/w/<tail:path>', method='PATCH', callback=lambda tail: handler())
    hooks = {}
    for i, kind in enumerate(case['before']):
        def bh(i=i, kind=kind):
            log.append(('before', i, 'ombott.route' in app.request.environ))
            if kind == 'raise':
                raise RuntimeError('before hook failed')
            if kind == 'raise_response':
                raise ombott.HTTPResponse('from hook', 418)
            if kind == 'remove_self':           # run-once hook (lazy initialisation idiom)
                app.remove_hook('before_request', hooks[('b', i)])
            if kind == 'rewrite_path':
                from vlib.wsgi import path_to_wsgi
                app.request.environ['PATH_INFO'] = box['real_path']
        hooks[('b', i)] = bh
        app.add_hook('before_request', bh)

    def late():
        log.append(('after', 'late'))
    for i, kind in enumerate(_after_kinds(case)):
        def ah(i=i, kind=kind):
            log.append(('after', i))
            if kind == 'remove_self':
                app.remove_hook('after_request', hooks[('a', i)])
            if kind == 'add_after' and not box.get('late_registered'):
                box['late_registered'] = True
                app.add_hook('after_request', late)
        hooks[('a', i)] = ah
        app.add_hook('after_request', ah)
    for code, kind in case['handlers'].items():
        def eh(err, kind=kind, code=code):
            log.append(('error_handler', code))
            if kind == 'raise':
                raise RuntimeError('error handler failed')
            if kind == 'str':
                return 'custom %s é' % code
            if kind == 'bytes':
                return b'custom bytes'
            if kind == 'empty':
                return ''
            if kind == 'http_response':
                return ombott.HTTPResponse('custom response %s' % code, status=int(code))
            if kind == 'error_again':
                return ombott.HTTPError(int(code), 'again')          # a handler that answers with the same error again (a cycle the framework must cut)

            def g():
                yield 'custom '
                yield 'gen'
            return g()
        app.error(int(code))(eh)
    return box


def _after_kinds(case):
    a = case['after']
    return ['ok'] * a if isinstance(a, int) else list(a)      # (older corpus files hold a count)


def predict_status(case):
    h = case['handlers']
    if any(v == 'error_again' for v in h.values()):
        return None          # which status a cut cycle ends with is not part of the property (it must end, with one well-formed response)
    for kind in case['before']:
        if kind in ('remove_self', 'rewrite_path'):
            continue
        if kind == 'raise':
            return 500 if h.get('500') != 'raise' else 500
        if kind == 'raise_response':
            return 418
    if case['target'] == 'miss':
        return 404 if h.get('404') != 'raise' else 500
    if case['target'] == 'wrongverb':
        return 405 if h.get('405') != 'raise' else 500
    base = P.status_of(case['resp_status'], 200)
    if base == 'invalid':
        return 500          # response.status = <malformed string> fails inside the handler
    out = case['out']
    # a failure inside the handler / at the first next() is rendered through the 500 handler
    return P.model_status(out, base, h)


def check_case(ctx, case):
    box = make_app(case)
    nt = False
    alive_b = list(range(len(case['before'])))
    after_kinds = _after_kinds(case)
    alive_a = list(range(len(after_kinds)))
    late_from = None            # number of the request in which the late after-hook got registered
    for reqno in (0, 1, 2):
        r, log, tr = serve(case, box, reqno)
        what = f'request {reqno} {case["method"]} target={case["target"]} program={ {k: case[k] for k in ("out", "resp_status", "before", "after", "handlers", "file_wrapper")} }'
        failing_close = P.has_failing_close(case['out'])
        if failing_close and r.escaped is not None and P.CLOSE_FAILED in str(r.escaped):
            # the SERVER closed a body it had been handed and that close() failed: nothing the application could turn into a 500 any more
            r.escaped = None
            ctx.count('failing_close_called_by_the_server')
        validate(r, what)
        if len(r.calls) != 1:
            raise CheckFailure(f'start_response was called {len(r.calls)} times ({[c["status"] for c in r.calls]}), the property says exactly once: {what}')
        code = r.code
        # ---- status
        want = None if failing_close else predict_status(case)      # (where a failing close() of a discarded body ends is not predicted: one well-formed response)
        if want is not None and code != want:
            raise CheckFailure(f'status {r.status!r}, predicted {want}: {what}\n{r.errors[-500:]}')
        # ---- body suppression
        bodiless = case['method'] == 'HEAD' or 100 <= code < 200 or code in (204, 304)
        if bodiless and r.body != b'':
            raise CheckFailure(f'{case["method"]} / status {code} response carries a body of {len(r.body)} bytes: {what}')
        # ---- Content-Length
        cls = r.header_all('Content-Length')
        if len(cls) > 1:
            raise CheckFailure(f'{len(cls)} Content-Length headers: {cls} {what}')
        explicit = case['explicit_cl'] is not None and case['target'] == 'hit'
        if cls and not bodiless and not explicit:
            if not cls[0].isdigit() or int(cls[0]) != len(r.body):
                raise CheckFailure(f'Content-Length {cls[0]!r} but {len(r.body)} body bytes were returned (status {code}): {what}')
            ctx.count('content_length_checked')
        # ---- close accounting
        for o in tr.objs:
            closes = getattr(o, 'closes', 0)
            if closes > 1:
                raise CheckFailure(f'{type(o).__name__} closed {closes} times: {what}')
            if hasattr(o, 'close') and o.produced and closes != 1 and not (failing_close and code == 500):
                raise CheckFailure(f'{type(o).__name__} produced output but was closed {closes} times: {what}')
            if hasattr(o, 'close') and o.produced:
                ctx.count('close_checked')
        # ---- hooks
        # hooks present when the request started run once each (a hook that removes itself still lets the others run;
        # a hook registered while the hooks are running is not judged for that request)
        want_log = []
        failed = False
        ran_b = []
        for i in alive_b:
            kind = case['before'][i]
            want_log.append(('before', i, False))
            ran_b.append(i)
            if kind in ('raise', 'raise_response'):
                failed = True
                break
            if kind == 'rewrite_path' and False:
                pass
        alive_b = [i for i in alive_b if not (i in ran_b and case['before'][i] == 'remove_self')]
        if not failed and case['target'] == 'hit':
            want_log.append('handler')
        if late_from is not None and late_from < reqno:
            want_log.append(('after', 'late'))
        for i in reversed(alive_a):
            want_log.append(('after', i))
            if after_kinds[i] == 'add_after' and late_from is None:
                late_from = reqno
        alive_a = [i for i in alive_a if after_kinds[i] != 'remove_self']
        got_log = [x for x in log if not (isinstance(x, tuple) and x[0] == 'error_handler')]
        if late_from == reqno:
            got_log = [x for x in got_log if x != ('after', 'late')]
        if got_log != want_log:
            raise CheckFailure(f'hook / handler call log {got_log}, expected {want_log}: {what}')
        ctx.count(f'status_{code // 100}xx')
    # ---- classification
    k = case['out']['k']
    ctx.count('outcome_' + k)
    ctx.count('method_' + case['method'])
    ctx.count('target_' + case['target'])
    if k == 'resp':
        ctx.count('resp_how_' + case['out']['how'])
        if case['out'].get('shared'):
            ctx.count('shared_response_object')
        if case['out']['body']['k'] == 'resp':
            ctx.count('nested_response')
    if case['before'] or case['after']:
        ctx.count('with_hooks')
    if any(b in ('raise', 'raise_response') for b in case['before']):
        ctx.count('failing_before_hook')
    if 'remove_self' in case['before'] or 'remove_self' in after_kinds or 'add_after' in after_kinds:
        ctx.count('hook_list_changes_while_hooks_run')
    if case['handlers']:
        ctx.count('custom_error_handler')
    plain = k == 'str' and not case['before'] and not case['after'] and case['method'] == 'GET' and case['resp_status'] is None and case['target'] == 'hit'
    if not plain:
        ctx.nontrivial(case, sample=case)


def check_concurrent_hooks(ctx, case):
    """Two threads change the hook lists of one application at the same time (add / remove): every hook whose add_hook() returned and that was
    not removed runs exactly once for the next request, every removed one never (every single-preemption schedule of either thread)."""
    import ombott
    from vlib.sched import Scheduler, BIG
    from checks.c08_threads import relevant
    ops = case['ops']

    def run(schedule):
        app = ombott.Ombott()
        log = []
        hooks = {name: (lambda name=name: log.append(name)) for name in ('pre0', 'pre1', 'a', 'b')}
        app.add_hook(case['event'], hooks['pre0'])
        app.add_hook(case['event'], hooks['pre1'])
        app.route('/x', callback=lambda: 'x')

        def fn(op):
            def f():
                if op[0] == 'add':
                    app.add_hook(case['event'], hooks[op[1]])
                else:
                    app.remove_hook(case['event'], hooks[op[1]])
            return f
        sc = Scheduler([fn(ops[0]), fn(ops[1])], schedule, relevant)
        sc.run()
        for e in sc.errors:
            if e is not None:
                raise CheckFailure(f'thread raised {fmt_exc(e)} under schedule {schedule}')
        r = call_app(app, make_environ('GET', '/x'))
        validate(r, f'after concurrent hook edits {ops}')
        want = {'pre0', 'pre1'}
        for op in ops:
            (want.add if op[0] == 'add' else want.discard)(op[1])
        if sorted(log) != sorted(want):
            raise CheckFailure(f'{case["event"]} hooks after the concurrent edits {ops} under schedule {schedule}: ran {sorted(log)}, registered are {sorted(want)} (each once)')
        ctx.evals += 1
        ctx.nontrivial('hooks:' + repr((case['event'], ops, schedule)))
        return sc.yields
    y = run([[0, BIG], [1, BIG]])
    for k in range(0, y[0] + 1):
        run([[0, k], [1, BIG], [0, BIG]])
    for k in range(0, y[1] + 1):
        run([[1, k], [0, BIG], [1, BIG]])
    ctx.count('concurrent_hook_edit_schedules', y[0] + y[1] + 2)


def run(ctx):
    for name, case in load_corpus(ID):
        ctx.guarded(check_concurrent_hooks if 'event' in case else check_case, case)
        ctx.count('corpus')
    if ctx.shard == 0:
        for event in ('before_request', 'after_request'):
            for ops in ([['add', 'a'], ['add', 'b']], [['add', 'a'], ['remove', 'pre0']], [['remove', 'pre0'], ['remove', 'pre1']]):
                ctx.guarded(check_concurrent_hooks, {'event': event, 'ops': ops})
    if ctx.shard == 0:
        # matrix: every outcome kind x GET/HEAD x bodiless statuses
        base = {'target': 'hit', 'resp_headers': [], 'cookies': [], 'explicit_cl': None, 'before': [], 'after': 1, 'handlers': {}, 'file_wrapper': False}
        items = {'type': 'str', 'items': ['', 'ab', 'c']}
        outs = [{'k': 'str', 'v': 'héllo'}, {'k': 'bytes', 'v': 'raw'}, {'k': 'empty'}, {'k': 'none'}, dict(items, k='list'), dict(items, k='gen', raise_at=None),
                dict(items, k='gen', raise_at=0), dict(items, k='iterobj', has_close=True, raise_at=None), dict(items, k='iterobj', has_close=True, raise_at=0),
                dict(items, k='iterobj', has_close=False, raise_at=None), {'k': 'file', 'data': 'file content', 'has_close': True, 'has_iter': False},
                {'k': 'file', 'data': 'file content', 'has_close': True, 'has_iter': True}, {'k': 'file', 'data': 'file content', 'has_close': False, 'has_iter': True},
                {'k': 'exc'}]
        for how in ('return', 'raise', 'yield'):
            for cls in ('HTTPResponse', 'HTTPError'):
                for st_ in (None, 102, 204, 304, 404, 418):
                    outs.append({'k': 'resp', 'cls': cls, 'status': st_, 'body': {'k': 'str', 'v': 'resp body'}, 'how': how, 'headers': [], 'shared': False})
                    outs.append({'k': 'resp', 'cls': cls, 'status': st_, 'body': dict(items, k='iterobj', has_close=True, raise_at=None), 'how': how, 'headers': [], 'shared': True})
        for out in outs:
            for method in ('GET', 'HEAD', 'POST'):
                for rs in (None, 103, 204, 304, 201):
                    for fw in (False, True):
                        ctx.guarded(check_case, dict(base, out=out, method=method, resp_status=rs, file_wrapper=fw))
        # every string status of the pool (valid with blanks, malformed in each way) set on the response, or carried by a returned / raised / yielded response object
        for stt in [x for x in P.STATUSES if isinstance(x, str)]:
            for method in ('GET', 'HEAD'):
                ctx.guarded(check_case, dict(base, out={'k': 'str', 'v': 'x'}, method=method, resp_status=stt))
                for how in ('return', 'raise', 'yield'):
                    for cls in ('HTTPResponse', 'HTTPError'):
                        ctx.guarded(check_case, dict(base, out={'k': 'resp', 'cls': cls, 'status': stt, 'body': {'k': 'str', 'v': 'b'}, 'how': how, 'headers': [], 'shared': False},
                                                     method=method, resp_status=None))
        ctx.count('string_status_grid')
        # every exception class of the pool raised by the handler (and by a before_request hook is covered by the generator): a 500, whatever the class
        for exc in P.EXC_TYPES:
            for method in ('GET', 'HEAD'):
                ctx.guarded(check_case, dict(base, out={'k': 'exc', 'exc': exc}, method=method, resp_status=None))
                ctx.guarded(check_case, dict(base, out={'k': 'resp', 'cls': 'HTTPResponse', 'status': 201, 'body': {'k': 'str', 'v': 'x'}, 'how': 'return', 'headers': [], 'shared': False},
                                             method=method, resp_status=None, handlers={'500': 'str'}, before=['ok']))
        ctx.count('exception_class_grid')
        # a handler iterable / file whose close() fails, for responses that keep and that lose their body
        for out in (dict(items, k='iterobj', has_close=True, raise_at=None, close_raises=True),
                    {'k': 'file', 'data': 'file content', 'has_close': True, 'has_iter': True, 'close_raises': True},
                    {'k': 'file', 'data': 'file content', 'has_close': True, 'has_iter': False, 'close_raises': True}):
            for method in ('GET', 'HEAD'):
                for rs in (None, 204, 304, 103):
                    for fw in (False, True):
                        ctx.guarded(check_case, dict(base, out=out, method=method, resp_status=rs, file_wrapper=fw))
                        ctx.guarded(check_case, dict(base, out={'k': 'resp', 'cls': 'HTTPResponse', 'status': rs, 'body': out, 'how': 'return', 'headers': [], 'shared': False},
                                                     method=method, resp_status=None, file_wrapper=fw))
        ctx.count('failing_close_grid')
        # iterables of bytes-like items that are not bytes (unsupported item types): one well-formed response, chunks are bytes, the iterable is closed
        for typ in ('bytearray', 'memoryview'):
            for its in (['a'], ['a', 'bc'], ['', 'a', 'b'], ['', '']):
                for k in ('list', 'gen', 'iterobj'):
                    for method in ('GET', 'HEAD'):
                        out = {'type': typ, 'items': its, 'k': k}
                        if k != 'list':
                            out['raise_at'] = None
                        if k == 'iterobj':
                            out['has_close'] = True
                        ctx.guarded(check_case, dict(base, out=out, method=method, resp_status=None))
        ctx.count('bytes_like_items_grid')
        # streaming media types set by the handler x every outcome kind (incl. generators failing at the first next() and raised / yielded responses); virtual-host configuration without a Host header
        for ct in STREAM_TYPES[:5]:
            for out in outs:
                for method in ('GET', 'HEAD'):
                    ctx.guarded(check_case, dict(base, out=out, method=method, resp_status=None, resp_headers=[['Content-Type', ct]]))
        for dm in (1, 2):
            for out in outs[:14]:
                for target in ('hit', 'miss', 'wrongverb'):
                    ctx.guarded(check_case, dict(base, out=out, method='GET', resp_status=None, target=target, domain_map=dm))
        ctx.count('stream_type_and_virtual_host_grid')
        # error-handler chains: every pair of handler kinds for (the status that occurs, 500)
        kinds = ['str', 'bytes', 'gen', 'raise', 'empty', 'http_response', 'error_again']
        for target, code in (('miss', '404'), ('wrongverb', '405')):
            for k1 in kinds:
                for k2 in [None] + kinds:
                    hs = {code: k1}
                    if k2:
                        hs['500'] = k2
                    ctx.guarded(check_case, dict(base, out={'k': 'str', 'v': 'x'}, method='GET', resp_status=None, file_wrapper=False, target=target, handlers=hs, before=[], after=[]))
        ctx.count('outcome_matrix')
        check_static_ranges(ctx)
    n = 3000 if ctx.tier == 'quick' else 40000
    ctx.hyp(case_st(), check_case, n)


def check_static_ranges(ctx):
    """static_file() as the handler outcome: for every Range spelling (ends inside, at and beyond the end of the file, suffixes longer than the file,
    unsatisfiable ones), with and without wsgi.file_wrapper, GET and HEAD: one start_response, a Content-Length that equals the bytes returned."""
    for n in (0, 1, 10, 1024, 70000):
        specs = [None, 'bytes=0-', 'bytes=0-0', f'bytes=0-{n - 1}', f'bytes=0-{n}', f'bytes=0-{n + 4095}', f'bytes={max(0, n - 1)}-{n + 10}', f'bytes={n // 2}-{n * 3 + 7}', 'bytes=-5', f'bytes=-{n + 10}',
                 f'bytes={n}-', f'bytes={n}-{n + 5}', 'bytes=5-2', f'bytes={n // 3}-{n // 2}', 'bytes=0-0,5-9', 'junk']
        for spec in specs:
            for fw in (False, True):
                for method in ('GET', 'HEAD'):
                    ctx.guarded(check_static_range, {'static_range': spec, 'n': n, 'file_wrapper': fw, 'method': method})
    ctx.count('static_file_range_grid')


def check_static_range(ctx, case):
    import os
    import shutil
    import tempfile
    from vlib.static import serve_static
    n, spec, fw, method = case['n'], case['static_range'], case['file_wrapper'], case['method']
    root = tempfile.mkdtemp(prefix='verif-c03-')
    try:
        with open(os.path.join(root, 'f.bin'), 'wb') as f:
            f.write(bytes(i % 251 for i in range(n)))
        r = serve_static('f.bin', root, method=method, headers=({'Range': spec} if spec else {}),
                         environ_extra=({'wsgi.file_wrapper': P.ServerFileWrapper} if fw else None))
    finally:
        shutil.rmtree(root, ignore_errors=True)
    what = f'static_file of a {n}-byte file, {method}, Range {spec!r}, file_wrapper={fw}'
    if r.escaped is not None:
        raise CheckFailure(f'{what}: exception escaped {fmt_exc(r.escaped)}')
    validate(r, what)
    if len(r.calls) != 1:
        raise CheckFailure(f'{what}: start_response called {len(r.calls)} times')
    if method == 'HEAD' and r.body:
        raise CheckFailure(f'{what}: HEAD answered with {len(r.body)} body bytes')
    cl = r.header_all('Content-Length')
    if method == 'GET' and r.code in (200, 206) and (len(cl) != 1 or not cl[0].isdigit() or int(cl[0]) != len(r.body)):
        raise CheckFailure(f'{what}: {r.status!r} Content-Length {cl!r} but {len(r.body)} body bytes were returned')
    ctx.nontrivial(what)


def replay(ctx, case):
    if 'event' in case:
        return check_concurrent_hooks(ctx, case)
    if 'static_range' in case:
        return check_static_range(ctx, case)
    check_case(ctx, case)
