"""C12  Malformed request bodies yield client errors, never server faults."""
import json
import re
import signal

from hypothesis import strategies as st

from vlib.core import CheckFailure, load_corpus, fmt_exc
from vlib.encoders import encode_chunked, encode_multipart
from vlib.wsgi import FragStream, make_environ, call_app

ID = 'C12'
LEVEL = 'exploration'
RULE = ('case = (body: random bytes | well-formed multipart from the harness encoder with 0-4 grammar mutations {drop / duplicate a delimiter, remove the '
        'closing delimiter, truncate at any offset, break a header line: non-UTF-8 bytes, no colon, no name parameter, empty value, empty block, stray '
        'quote / semicolon, runs of 40-3000 backslashes / quotes / semicolons / blanks inside a parameter, one control byte at marked positions of a header line; bare CR / LF, non-UTF-8 text value, byte insert / replace / delete, junk preamble} | JSON: valid, invalid, non-object, nested '
        '10..100000 levels, non-UTF-8, BOM, empty | urlencoded text incl. stray % and non-ASCII bytes, 50-8000 fields / separators; parts that declare their own charset (known, unknown, non-text codecs, malformed labels), transfer encoding or length) x content type (matching / mismatching / missing '
        'boundary, multipart/mixed, JSON with parameters, upper case, none) x framing (Content-Length equal / short / long, chunked, truncated or corrupted '
        'chunked) x max_memfile_size in {8..102400} x accessor sequence over {forms, files, POST, params, json, body, query}; a fifth of the cases and a fixed grid are served on a worker thread (not the thread that imported the framework). Oracle: nothing escapes, status '
        'is 2xx or 4xx, nothing is written to wsgi.errors, the request finishes under a 10 s watchdog; every delivered text value / file content D occurs '
        'in the de-framed body as CRLFCRLF + D + CRLF--boundary (a part terminated by a delimiter); a delivered JSON value equals json.loads of the '
        'body. Non-trivial = the body is not a well-formed instance of its content type (mutated, truncated, invalid) or the framing is broken; distinct '
        'by case hash.')
ASSUMPTIONS = ['a 10 s watchdog (SIGALRM) operationalises "never hangs"; inputs normally take < 5 ms',
               'header values are Latin-1 text without CR/LF (what a server can deliver)']

BOUNDS = ['b', 'bnd', '--b', 'X-1', 'a' * 40, 'B' * 69, 'c' * 70, 'd' * 71, 'e' * 100, 'f' * 300]         # (RFC 2046 allows 1-70 characters; longer ones still arrive)
WATCHDOG_S = 10


def wellformed(draw, boundary):
    parts = []
    for _ in range(draw(st.one_of(st.integers(0, 4), st.integers(3, 8)))):
        name = draw(st.sampled_from(['a', 'a', 'a', 'a', 'b', 'f', 'a;b', 'é']))
        val = draw(st.one_of(st.binary(max_size=12), st.sampled_from([b'', b'v', b'\r\n', b'--', b'\r\n--', b'x' * 30, 'é'.encode(), b'\xff\xfe'])))
        tok = b'\r\n--' + boundary.encode()
        if tok in b'\r\n' + val:
            val = val.replace(b'-', b'_')
        pct = draw(st.one_of(st.sampled_from([None, None, 'text/plain']), st.sampled_from(CHARSETS).map(lambda c: 'text/plain; charset=' + c)))
        if draw(st.booleans()):
            parts.append({'name': name, 'filename': draw(st.sampled_from(['x.txt', 'a;b.bin', 'é'])), 'ctype': pct, 'value': val})
        else:
            parts.append({'name': name, 'value': val, 'ctype': pct,
                          'extra_headers': draw(st.sampled_from([None, None, [('Content-Transfer-Encoding', 'base64')], [('Content-Length', '3')], [('content-type', 'text/x; charset=nope')],
                                                                    [('Content-Length', '\u00b2')], [('Content-Length', '\u2461')], [('Content-Length', '9' * 5000)], [('Content-Length', '-1')],
                                                                    [('Content-Length', ' 3 ')], [('Content-Length', '3.0')], [('Content-Length', '')], [('Content-Length', '\u0663')]]))})
    body, truth = encode_multipart(boundary, parts, draw(st.sampled_from([b'', b'', b'\r\n'])), draw(st.sampled_from([b'', b'\r\n', b'\r\nepilogue'])))
    return body, truth


# charset labels a part may declare for itself: known, aliases, unknown, non-text codecs, malformed
CHARSETS = ['utf-8', 'UTF8', 'ISO-8859-1', 'latin-1', 'cp1252', 'utf-16', 'utf-7', 'ascii', 'x-user-defined', 'klingon', 'utf-8-bogus', 'base64', 'hex', 'rot13', 'zlib', 'bz2',
            'quopri', 'uu', 'idna', 'punycode', 'unicode_escape', 'undefined', 'mbcs', '', '"utf-8"', '"', 'utf-8; x=1', 'a' * 300, '\xe9', 'utf 8', '%00', '../x']

MUTS = ['hdr_barename', 'hdr_barename', 'hdr_ctl', 'hdr_ctl', 'hdr_run', 'hdr_run', 'drop_delim', 'dup_delim', 'no_close', 'truncate', 'hdr_nonutf8', 'hdr_nocolon', 'hdr_noname', 'hdr_emptyval', 'hdr_emptyblock', 'hdr_quote', 'bare_cr', 'bare_lf',
        'insert', 'replace', 'delete', 'preamble', 'hdr_only_name', 'lf_only', 'swap_halves']


def mutate(body, truth, mut, a, b, boundary):
    bb = boundary.encode()
    delims = truth['delims']
    hdrs = [(s, e) for k, s, e in truth['sections'] if k == 'headers']
    n = len(body)
    pos = a % (n + 1)
    if mut == 'drop_delim' and delims:
        s, e = delims[a % len(delims)]
        return body[:s] + body[e:]
    if mut == 'dup_delim' and delims:
        s, e = delims[a % len(delims)]
        return body[:e] + body[s:e] + body[e:]
    if mut == 'no_close' and truth['close']:
        s, e = truth['close']
        return body[:s - (b % 3)]
    if mut == 'truncate':
        return body[:pos]
    if mut == 'hdr_ctl' and hdrs:
        # one control byte (every C0 control, DEL, and a few high bytes) somewhere inside a header line of a part
        s, e = hdrs[a % len(hdrs)]
        ctl = bytes([(list(range(33)) + [0x7f, 0x80, 0x85, 0xa0, 0xff])[b % 38]])
        block = body[s:e]
        marks = [m for m in (block.find(b':'), block.find(b':') + 2, block.find(b';'), block.find(b'="') + 2, block.find(b'Content-Type: ') + 14, block.find(b'/'),
                             len(block), len(block) - 1, 0, 3) if 0 <= m <= len(block)] or [0]
        k = marks[(a // 7) % len(marks)]
        return body[:s] + block[:k] + ctl + block[k:] + body[e:]
    if mut == 'hdr_run' and hdrs:
        s, e = hdrs[a % len(hdrs)]
        ch = [b'\\', b'"', b';', b'=', b' ', b'\t', b'a', b'\\"', b'; ', b'="'][b % 10]
        run = ch * [40, 120, 400, 3000][a % 4]
        shape = [b'Content-Disposition: form-data; name="a' + run, b'Content-Disposition: form-data; name="a"; filename="' + run + b'x',
                 b'Content-Disposition: form-data; name=' + run + b'"a"', b'Content-Disposition: form-data' + run + b'; name="a"',
                 b'Content-Disposition: form-data; name="a' + run + b'"'][(a // 4) % 5]
        return body[:s] + shape + body[e:]
    if mut.startswith('hdr_') and hdrs:
        s, e = hdrs[a % len(hdrs)]
        new = {'hdr_nonutf8': b'Content-Disposition: form-data; name="\xff\xfe"', 'hdr_nocolon': b'Content-Disposition form-data name="a"',
               'hdr_noname': b'Content-Disposition: form-data; filename="x"', 'hdr_emptyval': b'Content-Disposition:', 'hdr_emptyblock': b'',
               'hdr_quote': b'Content-Disposition: form-data; name="a; filename="b', 'hdr_only_name': b'name="a"',
               'hdr_barename': [b'Content-Disposition: form-data; name', b'Content-Disposition: form-data; name; filename="x"', b'Content-Disposition: form-data; name="a"; filename',
                                b'Content-Disposition: form-data; name=; filename=', b'Content-Disposition: form-data; NAME', b'Content-Disposition: form-data; name= ', b'Content-Disposition: form-data; name=\t; filename="x"',
                                b'Content-Disposition: form-data; name="a"; filename= ; x=y', b'Content-Disposition: form-data; name=" "', b'Content-Disposition:  ; name="a"'][b % 10]}[mut]
        return body[:s] + new + body[e:]
    if mut == 'bare_cr':
        return body[:pos] + b'\r' + body[pos:]
    if mut == 'bare_lf':
        return body[:pos] + b'\n' + body[pos:]
    if mut == 'insert':
        return body[:pos] + bytes([b % 256]) * (1 + b % 3) + body[pos:]
    if mut == 'replace' and n:
        return body[:pos % n] + bytes([b % 256]) + body[pos % n + 1:]
    if mut == 'delete' and n:
        return body[:pos % n] + body[pos % n + 1 + b % 3:]
    if mut == 'preamble':
        return [b'junk', b'\r\n\r\n', b'--', b'-', b'\r', b'--' + bb + b'--'][b % 6] + body
    if mut == 'lf_only':
        return body.replace(b'\r\n', b'\n')
    if mut == 'swap_halves':
        return body[pos:] + body[:pos]
    return body


JSON_POOL = [b'{"a": 1}', b'{"a": {"b": [1, 2, "x"]}}', b'[1, 2]', b'null', b'7', b'"s"', b'', b' ', b'{', b'{"a":}', b'{"a": 1,}', b"{'a': 1}", b'\xff\xfe', b'{"a": "\xff"}',
                     b'\xef\xbb\xbf{"a": 1}', b'NaN', b'{"a": 1} x', b'[' * 50 + b']' * 50, b'[' * 5000, b'{"k":' * 3000 + b'1' + b'}' * 3000, b'[' * 100000, b'true', b'{"\\ud800": 1}',
                     b'{"a": 1e999}', b'\x00', b'{"a": "' + b'x' * 200 + b'"}']
JSONS = st.one_of(
    st.sampled_from(JSON_POOL),
    st.builds(lambda o, n, c, k: o * n + c * (n if k else 0), st.sampled_from([b'[', b'{"k":', b'[{"a":']), st.sampled_from([10, 500, 1500, 5000, 20000]),
              st.sampled_from([b']', b'}', b'1']), st.booleans()),
    st.binary(max_size=20),
    st.recursive(st.one_of(st.none(), st.booleans(), st.integers(), st.text(max_size=5)), lambda c: st.lists(c, max_size=3) | st.dictionaries(st.text(max_size=3), c, max_size=3),
                 max_leaves=6).map(lambda v: json.dumps(v).encode()))
MANY = st.builds(lambda n, shape: b'&'.join(shape % (i, i) for i in range(n)) if b'%d' in shape else shape * n, st.sampled_from([50, 999, 1000, 1001, 1002, 2500, 8000]),
                 st.sampled_from([b'f%d=v%d', b'f%d=%d', b'%d=%d', b'&', b'a=1&', b';', b'a&', b'=&', b'%41=%42&']))
URLENC = st.one_of(MANY, st.binary(max_size=30), st.text(st.sampled_from(list('ab=&%+;1 é')), max_size=20).map(lambda s: s.encode('utf8')),
                   st.sampled_from([b'a=1&b=2', b'%', b'%zz=%', b'a=%ff', b'&&&', b'=', b'a' * 300 + b'=1', b'\xff=\xfe']))
ACCESS = st.lists(st.sampled_from(['forms', 'files', 'POST', 'params', 'json', 'body', 'query', 'forms', 'POST', 'files']), min_size=1, max_size=3)


@st.composite
def case_st(draw):
    fam = draw(st.sampled_from(['multipart', 'multipart', 'multipart', 'json', 'urlencoded', 'raw']))
    boundary = draw(st.sampled_from(BOUNDS))
    muts = []
    if fam == 'multipart':
        body, truth = wellformed(draw, boundary)
        for _ in range(draw(st.integers(0, 4))):
            m = draw(st.sampled_from(MUTS))
            a, b = draw(st.integers(0, 500)), draw(st.integers(0, 500))
            muts.append([m, a, b])
            nb = mutate(body, truth, m, a, b, boundary)
            if nb != body:
                # offsets are stale after a mutation: later mutations use byte-level operators only
                body = nb
                truth = {'delims': [], 'sections': [], 'close': None, 'hdr_ends': []}
        ct = draw(st.sampled_from(['multipart/form-data; boundary=' + boundary] * 6 + [
            'multipart/form-data; boundary=other', 'multipart/form-data', 'multipart/form-data; boundary=', 'multipart/mixed; boundary=' + boundary,
            'MULTIPART/FORM-DATA; BOUNDARY=' + boundary, 'multipart/form-data; boundary="' + boundary + '"', 'multipart/form-data; charset=utf-8; boundary=' + boundary,
            'multipart/form-data; boundary=' + boundary + '; charset=utf-8', 'multipart/form-data;boundary=' + boundary, 'multipart/; boundary=' + boundary]))
    elif fam == 'json':
        body = draw(JSONS)
        ct = draw(st.sampled_from(['application/json', 'application/json', 'application/json; charset=utf-8', 'APPLICATION/JSON', 'application/json;', 'application/jsonx']))
    elif fam == 'urlencoded':
        body = draw(URLENC)
        ct = draw(st.sampled_from(['application/x-www-form-urlencoded', 'application/x-www-form-urlencoded; charset=utf-8', '', 'text/plain']))
    else:
        body = draw(st.binary(max_size=80))
        ct = draw(st.sampled_from(['multipart/form-data; boundary=b', 'application/json', '', 'application/octet-stream', 'multipart/form-data; boundary=\xff', 'text/plain; charset=\xe9']))
    framing = draw(st.sampled_from(['length', 'length', 'length', 'short', 'long', 'chunked', 'chunked', 'chunked_trunc', 'chunked_corrupt', 'none']))
    return {'family': fam, 'body': body, 'ctype': ct, 'boundary': boundary, 'mutations': muts, 'framing': framing,
            'fr_a': draw(st.integers(0, 300)), 'fr_b': draw(st.integers(0, 255)), 'chunks': draw(st.lists(st.integers(1, 40), max_size=4)),
            'B': draw(st.sampled_from([8, 16, 64, 64, 1000, 102400, 102400])) if len(body) < 3000 else 102400, 'access': draw(ACCESS),
            'pattern': draw(st.one_of(st.just([]), st.lists(st.integers(1, 9), min_size=1, max_size=4))), 'method': draw(st.sampled_from(['POST', 'PUT', 'POST', 'GET']))}


class _Hang(BaseException):         # not an Exception: the framework's catch-all must not turn the watchdog into a 500 page
    pass


def _alarm(signum, frame):
    # re-arm first: if this exception lands somewhere that swallows it (a gc callback, a __del__), the next one follows a second later
    signal.alarm(1)
    raise _Hang()


def frame_body(case):
    body = case['body']
    fr = case['framing']
    headers = {}
    if case['ctype'] != '':
        headers['Content-Type'] = case['ctype']
    if fr in ('length', 'short', 'long', 'none'):
        cl = {'length': len(body), 'short': max(0, len(body) - 1 - case['fr_a'] % 7), 'long': len(body) + 1 + case['fr_a'] % 50, 'none': None}[fr]
        return body, cl, headers, (body[:cl] if cl is not None else b'')
    wire, layout = encode_chunked(body, case['chunks'], trailers=(['X-T: 1'] if case['fr_b'] % 5 == 0 else ()))
    headers['Transfer-Encoding'] = 'chunked'
    logical = body
    if fr == 'chunked_trunc':
        cut = case['fr_a'] % (len(wire) + 1)
        if cut < len(wire):
            logical = None          # what a decoder makes of a truncated coding is C05's business: completeness is not judged against it
        wire = wire[:cut]
    elif fr == 'chunked_corrupt' and wire:
        i = case['fr_a'] % len(wire)
        hit = [(s, e, sum(e2 - s2 for k2, s2, e2 in layout if k2 == 'data' and e2 <= s)) for k, s, e in layout if k == 'data' and s <= i < e]
        if hit:
            s0, e0, before = hit[0]
            j = before + (i - s0)           # the corrupted byte is payload: the body actually sent differs at that offset
            logical = body[:j] + bytes([case['fr_b']]) + body[j + 1:]
        else:
            logical = None          # corrupted framing: the de-framed body is whatever the decoder accepts
        wire = wire[:i] + bytes([case['fr_b']]) + wire[i + 1:]
    return wire, None, headers, logical


def boundary_of(ctype):
    m = re.search(r'boundary=([^;]*)', ctype)
    return m.group(1) if m else None


def _enc(text, cs):
    try:
        return text.encode(cs)
    except UnicodeError:
        return None


def check_case(ctx, case):
    import ombott
    wire, cl, headers, logical = frame_body(case)
    app = ombott.Ombott({'max_memfile_size': case['B']})
    seen = []

    def h():
        rq = app.request
        for acc in case['access']:
            v = getattr(rq, acc)
            if acc == 'body':
                v = v.read()
            elif acc in ('forms', 'files', 'POST', 'params', 'query'):
                d = {}
                for k, x in v.items():
                    items = x if isinstance(x, list) else [x]
                    d[k] = [it if isinstance(it, (str, int, float, bool, type(None), list, dict)) else ['FILE', it.raw_filename, it] for it in items]
                # uploads are read the way applications do: the first bytes of every upload (sniffing), a glance at request.body, then the rest of each
                ups = [it for its in d.values() for it in its if isinstance(it, list) and it and it[0] == 'FILE' and not isinstance(it[2], bytes)]
                for u in ups:
                    u[2].file.seek(0)
                heads = [u[2].file.read(4) for u in ups]
                if ups:
                    rq.body.read(9)
                for u, head in zip(ups, heads):
                    u[2] = head + u[2].file.read()
                for its in d.values():
                    for j, it in enumerate(its):
                        if isinstance(it, list) and it and it[0] == 'FILE':
                            its[j] = tuple(it)
                v = d
            seen.append((acc, v))
        return 'ok'
    app.route('/x', method=['POST', 'PUT', 'GET'], callback=h)
    env = make_environ(case['method'], '/x', stream=FragStream(wire, case['pattern']), content_length=cl, headers=headers, qs='q=1')
    if case.get('thread'):
        # served by a worker thread (what a threaded server does); join with a timeout is the watchdog there
        import threading
        box = {}
        t = threading.Thread(target=lambda: box.__setitem__('r', call_app(app, env)), daemon=True)
        t.start()
        t.join(WATCHDOG_S)
        if 'r' not in box:
            raise CheckFailure(f'request served on a worker thread did not finish within {WATCHDOG_S} s: family={case["family"]} mutations={case["mutations"]} body={case["body"][:200]!r}')
        r = box['r']
        ctx.count('served_on_a_worker_thread')
        return _judge(ctx, case, r, seen, logical)
    old = signal.signal(signal.SIGALRM, _alarm)
    signal.alarm(WATCHDOG_S)
    try:
        try:
            r = call_app(app, env)
        finally:
            signal.alarm(0)
            signal.signal(signal.SIGALRM, old)
    except _Hang:
        raise CheckFailure(f'request did not finish within {WATCHDOG_S} s: family={case["family"]} mutations={case["mutations"]} ctype={case["ctype"]!r} framing={case["framing"]} '
                           f'B={case["B"]} access={case["access"]} body={case["body"][:300]!r}')
    return _judge(ctx, case, r, seen, logical)


def _judge(ctx, case, r, seen, logical):
    what = (f'family={case["family"]} mutations={case["mutations"]} ctype={case["ctype"]!r} framing={case["framing"]} B={case["B"]} access={case["access"]} '
            f'{"(served on a worker thread) " if case.get("thread") else ""}body={case["body"][:200]!r}{"..." if len(case["body"]) > 200 else ""}')
    if isinstance(r.escaped, _Hang):
        raise CheckFailure(f'request did not finish within {WATCHDOG_S} s: {what}')
    if r.escaped is not None:
        raise CheckFailure(f'exception escaped the application: {fmt_exc(r.escaped)}\n{what}')
    if r.code is None or not (200 <= r.code < 300 or 400 <= r.code < 500):
        tail = r.errors.strip().splitlines()[-1:] if r.errors else []
        raise CheckFailure(f'status {r.status!r} (neither success nor client error) {tail}: {what}\n{r.errors[-1200:]}')
    if r.errors:
        raise CheckFailure(f'traceback written to wsgi.errors although the status is {r.status!r}: {r.errors[-600:]}\n{what}')
    ctx.count(f'status_{r.code}')
    if case.get('expect_parts') and r.code == 200:
        # a well-formed form of known shape: every part arrives (nothing swallowed, nothing delivered empty)
        got = sum(len(v) for acc, v in seen if acc in ('files', 'forms') for v in v.values())
        if got != case['expect_parts']:
            raise CheckFailure(f'well-formed form with {case["expect_parts"]} parts read with buffer {case["B"]}: {got} values delivered')
        for acc, d in seen:
            if acc == 'files':
                for k, items in d.items():
                    for it in items:
                        if isinstance(it, tuple) and not it[2].endswith(b'DATA' + k[1:].encode()):
                            raise CheckFailure(f'well-formed form read with buffer {case["B"]}: upload {k!r} delivered as {it[2][:40]!r}')
    # ---- completeness of delivered multipart fields
    if r.code == 200:
        bnd = boundary_of(case['ctype'])
        is_mp = case['ctype'].lower().startswith('multipart/')
        for acc, v in seen:
            if acc in ('forms', 'files', 'POST') and is_mp and logical is not None:
                for k, items in v.items():
                    for it in items:
                        if it is None:
                            ctx.count('delivered_value_is_None(empty filename part)')      # no data delivered: nothing to judge
                            continue
                        # a text value is judged in UTF-8 or in any charset the part may have declared for itself
                        Ds = [it[2]] if not isinstance(it, str) else [e for e in (_enc(it, cs) for cs in ('utf8', 'latin-1', 'cp1252', 'utf-16-le', 'utf-16-be', 'utf-16', 'utf-7', 'ascii')) if e is not None]
                        D = Ds[0]
                        if bnd is None or not any(b'\r\n\r\n' + d + b'\r\n--' + bnd.encode('latin1') in logical for d in Ds):
                            raise CheckFailure(f'delivered field {k!r} = {D[:80]!r} is not the complete data of a delimiter-terminated part of the body: {what}')
                        ctx.count('delivered_fields_checked')
            if acc == 'json' and case['ctype'].lower().split(';')[0].strip() == 'application/json' and logical:
                try:
                    ref = json.loads(logical)
                except Exception:
                    raise CheckFailure(f'request.json delivered {v!r} for a body that is not valid JSON: {what}')
                if v != ref and not (v != v):
                    raise CheckFailure(f'request.json {v!r} differs from json.loads(body) {ref!r}: {what}')
                ctx.count('delivered_json_checked')
    broken = bool(case['mutations']) or case['framing'] in ('short', 'long', 'chunked_trunc', 'chunked_corrupt') or case['family'] == 'raw'
    if case['family'] == 'json':
        try:
            broken = broken or not isinstance(json.loads(case['body']), dict)
        except Exception:
            broken = True
    ctx.count('family_' + case['family'])
    ctx.count('framing_' + case['framing'])
    for m in case['mutations']:
        ctx.count('mut_' + m[0])
    if case['family'] == 'fuzz':
        return
    if broken:
        if 400 <= r.code < 500:
            ctx.count('broken_input_answered_4xx')
        ctx.nontrivial(case, sample={k: case[k] for k in ('family', 'mutations', 'ctype', 'framing', 'B', 'access', 'body')})


# ------------------------------------------------------------------ coverage-guided tier (atheris)
FUZZ_CT = ['multipart/form-data; boundary=b', 'multipart/form-data; boundary=b', 'multipart/form-data; boundary=bnd', 'application/json', 'application/x-www-form-urlencoded',
           'multipart/mixed; boundary=b', '', 'multipart/form-data']
FUZZ_ACC = [['forms'], ['files'], ['POST'], ['params'], ['json'], ['body', 'POST'], ['json', 'forms']]


def fuzz_decode(data):
    if len(data) < 4:
        return None
    ct = FUZZ_CT[data[0] % len(FUZZ_CT)]
    fr = ['length', 'length', 'chunked', 'short', 'long', 'chunked_trunc', 'chunked_corrupt', 'none'][data[1] % 8]
    return {'family': 'fuzz', 'body': bytes(data[3:]), 'ctype': ct, 'boundary': 'b', 'mutations': [], 'framing': fr, 'fr_a': data[2], 'fr_b': data[1],
            'chunks': [1 + data[2] % 23], 'B': [8, 16, 64, 1000, 102400][(data[1] >> 3) % 5], 'access': FUZZ_ACC[data[2] % len(FUZZ_ACC)],
            'pattern': [[], [3], [1, 5]][(data[1] >> 6) % 3], 'method': 'POST'}


def fuzz_one(ctx, case):
    check_case(ctx, case)


def run(ctx):
    for name, case in load_corpus(ID):
        ctx.guarded(check_case, case)
        ctx.count('corpus')
    if ctx.shard == 0:
        # every truncation offset of two fixed well-formed forms, under three buffers and all form accessors
        parts = [{'name': 'a', 'value': b'one'}, {'name': 'f', 'filename': 'x.bin', 'ctype': 'text/plain', 'value': b'file\r\ndata--'}, {'name': 'a', 'value': 'é'.encode()}]
        body, _ = encode_multipart('bnd', parts, b'', b'\r\n')
        for cut in range(len(body) + 1):
            for B in (8, 64, 102400):
                for acc in (['forms'], ['files'], ['POST'], ['params']):
                    for fr in ('length', 'chunked'):
                        ctx.guarded(check_case, {'family': 'multipart', 'body': body[:cut], 'ctype': 'multipart/form-data; boundary=bnd', 'boundary': 'bnd',
                                                 'mutations': [['truncate', cut, 0]], 'framing': fr, 'fr_a': 0, 'fr_b': 1, 'chunks': [7], 'B': B, 'access': acc,
                                                 'pattern': [], 'method': 'POST'})
        ctx.count('truncation_grid')
        # the same well-formed form under every read-buffer size and every regular transfer-chunk size (buffer boundaries sweep over every offset)
        for B in range(8, len(body) + 2):
            for acc in (['POST'], ['files', 'forms']):
                ctx.guarded(check_case, {'family': 'multipart', 'body': body, 'ctype': 'multipart/form-data; boundary=bnd', 'boundary': 'bnd', 'mutations': [],
                                         'framing': 'length', 'fr_a': 0, 'fr_b': 1, 'chunks': [], 'B': B, 'access': acc, 'pattern': [], 'method': 'POST'})
        for k in range(1, 48):
            ctx.guarded(check_case, {'family': 'multipart', 'body': body, 'ctype': 'multipart/form-data; boundary=bnd', 'boundary': 'bnd', 'mutations': [],
                                     'framing': 'chunked', 'fr_a': 0, 'fr_b': 1, 'chunks': [k] * (len(body) // k + 1), 'B': 102400, 'access': ['POST'], 'pattern': [],
                                     'method': 'POST'})
        # parts whose data BEGINS with each proper suffix of the delimiter (what is left of a delimiter that straddles two read buffers), under every buffer size
        tok = b'\r\n--bnd'
        sparts = [{'name': 'p%d' % k, 'filename': 'f%d' % k, 'value': tok[k:] + b'DATA%d' % k} for k in range(1, len(tok))] + [{'name': 'last', 'value': b'end'}]
        sbody, _ = encode_multipart('bnd', sparts, b'', b'\r\n')
        for B in range(8, 130):
            ctx.guarded(check_case, {'family': 'multipart', 'body': sbody, 'ctype': 'multipart/form-data; boundary=bnd', 'boundary': 'bnd', 'mutations': [], 'framing': 'length', 'fr_a': 0,
                                     'fr_b': 1, 'chunks': [], 'B': B, 'access': ['files', 'forms'], 'pattern': [], 'method': 'POST', 'expect_parts': len(sparts)})
        # ... and delivered in two reads cut at EVERY offset (the stream returns `cut` bytes, then the rest)
        for cut in range(1, len(sbody)):
            ctx.guarded(check_case, {'family': 'multipart', 'body': sbody, 'ctype': 'multipart/form-data; boundary=bnd', 'boundary': 'bnd', 'mutations': [], 'framing': 'length', 'fr_a': 0,
                                     'fr_b': 1, 'chunks': [], 'B': 102400, 'access': ['files', 'forms'], 'pattern': [cut, 100000], 'method': 'POST', 'expect_parts': len(sparts)})
        ctx.count('buffer_sweep_grid')
        # the chunked framing of that form cut at EVERY wire offset (truncated transfer coding), read through three accessors
        wire_len = len(encode_chunked(body, [7])[0])
        for cut in range(wire_len + 1):
            for acc in (['body'], ['POST'], ['json']):
                ctx.guarded(check_case, {'family': 'multipart', 'body': body, 'ctype': 'multipart/form-data; boundary=bnd', 'boundary': 'bnd', 'mutations': [['wire_cut', cut, 0]],
                                         'framing': 'chunked_trunc', 'fr_a': cut, 'fr_b': 1, 'chunks': [7], 'B': 64, 'access': acc, 'pattern': [], 'method': 'POST'})
        ctx.count('chunked_wire_truncation_grid')
        # runs of one character inside a parameter of a part header (every character x shape x two lengths)
        wf2, truth2 = encode_multipart('bnd', parts, b'', b'\r\n')
        for a in range(0, 20):
            for b in range(10):
                mutated = mutate(wf2, truth2, 'hdr_run', a, b, 'bnd')
                ctx.guarded(check_case, {'family': 'multipart', 'body': mutated, 'ctype': 'multipart/form-data; boundary=bnd', 'boundary': 'bnd', 'mutations': [['hdr_run', a, b]],
                                         'framing': 'length', 'fr_a': 0, 'fr_b': 1, 'chunks': [], 'B': 102400, 'access': ['POST'], 'pattern': [], 'method': 'POST'})
        ctx.count('header_run_grid')
        # every control byte at every marked position of the file part's header block, read through files and POST
        for a in range(0, 70, 7):
            for b in range(38):
                mutated = mutate(wf2, truth2, 'hdr_ctl', a + 1, b, 'bnd')
                ctx.guarded(check_case, {'family': 'multipart', 'body': mutated, 'ctype': 'multipart/form-data; boundary=bnd', 'boundary': 'bnd', 'mutations': [['hdr_ctl', a + 1, b]],
                                         'framing': 'length', 'fr_a': 0, 'fr_b': 1, 'chunks': [], 'B': 102400, 'access': ['files', 'POST'], 'pattern': [], 'method': 'POST'})
        ctx.count('header_control_byte_grid')
        # one field name used by k text parts and m file parts in every interleaving (k, m <= 3)
        import itertools
        for k in range(0, 4):
            for m in range(0, 4):
                for order in sorted(set(itertools.permutations('t' * k + 'f' * m)))[:12]:
                    ps = [({'name': 'a', 'value': b'text%d' % i} if ch == 't' else {'name': 'a', 'filename': 'u%d.bin' % i, 'value': b'file%d' % i}) for i, ch in enumerate(order)]
                    bd, _ = encode_multipart('bnd', ps, b'', b'\r\n')
                    ctx.guarded(check_case, {'family': 'multipart', 'body': bd, 'ctype': 'multipart/form-data; boundary=bnd', 'boundary': 'bnd', 'mutations': [], 'framing': 'length',
                                             'fr_a': 0, 'fr_b': 1, 'chunks': [], 'B': 102400, 'access': ['POST', 'forms', 'files'], 'pattern': [], 'method': 'POST'})
        ctx.count('same_name_parts_grid')
        # every JSON pool document x accessor x framing with a buffer that holds it (deep nesting needs a large buffer to get past the size cap)
        for doc in JSON_POOL + [b'{"k":' * 1200 + b'1' + b'}' * 1200, b'[' * 1200 + b']' * 1200]:
            for acc in (['json'], ['forms'], ['POST'], ['params'], ['body', 'json']):
                for fr in ('length', 'chunked'):
                    for ct in ('application/json', 'application/json; charset=utf-8'):
                        ctx.guarded(check_case, {'family': 'json', 'body': doc, 'ctype': ct, 'boundary': 'b', 'mutations': [], 'framing': fr, 'fr_a': 0, 'fr_b': 1,
                                                 'chunks': [4000], 'B': 102400, 'access': acc, 'pattern': [], 'method': 'POST'})
        ctx.count('json_grid')
        # size dimension: N fields / N parts for N around every power of ten and just above 1000, all form accessors, both framings
        for N in (1, 10, 100, 999, 1000, 1001, 1002, 1500, 5000, 20000):
            bodies = [('urlencoded', b'&'.join(b'f%d=v%d' % (i, i) for i in range(N)), 'application/x-www-form-urlencoded'),
                      ('urlencoded', b'&'.join(b'f=%d' % i for i in range(N)), ''),
                      ('urlencoded', b'&' * N + b'a=1', 'text/plain')]
            if N <= 5000:
                bd, _ = encode_multipart('bnd', [{'name': 'f%d' % i, 'value': b'v'} for i in range(N)], b'', b'\r\n')
                bodies.append(('multipart', bd, 'multipart/form-data; boundary=bnd'))
                bd, _ = encode_multipart('bnd', [{'name': 'f', 'filename': 'u%d' % i, 'value': b'v'} for i in range(N)], b'', b'\r\n')
                bodies.append(('multipart', bd, 'multipart/form-data; boundary=bnd'))
            for fam, bd, ct in bodies:
                for acc in (['forms'], ['POST'], ['files'], ['params']):
                    for fr in ('length', 'chunked'):
                        ctx.guarded(check_case, {'family': fam, 'body': bd, 'ctype': ct, 'boundary': 'bnd', 'mutations': [['many_fields', N, 0]], 'framing': fr, 'fr_a': 0, 'fr_b': 1,
                                                 'chunks': [4000], 'B': 1 << 20, 'access': acc, 'pattern': [], 'method': 'POST'})
        ctx.count('field_count_grid')
        # a part that declares its own charset: every label x text / file part x ASCII / non-ASCII / empty data
        for cs in CHARSETS:
            for fn in (None, 'x.bin'):
                for val in (b'abc', 'é'.encode(), b'\xff\xfe', b'', b'YWJj'):
                    for hname in ('Content-Type', 'content-type', 'CONTENT-TYPE'):
                        p0 = {'name': 'a', 'value': val, 'extra_headers': [(hname, 'text/plain; charset=' + cs)]}
                        if fn:
                            p0['filename'] = fn
                        bd, _ = encode_multipart('bnd', [p0, {'name': 'b', 'value': b'tail'}], b'', b'\r\n')
                        ctx.guarded(check_case, {'family': 'multipart', 'body': bd, 'ctype': 'multipart/form-data; boundary=bnd', 'boundary': 'bnd', 'mutations': [['part_charset', 0, 0]],
                                                 'framing': 'length', 'fr_a': 0, 'fr_b': 1, 'chunks': [], 'B': 102400, 'access': ['POST', 'forms', 'files'], 'pattern': [], 'method': 'POST'})
        ctx.count('part_charset_grid')
        # a part that declares its own length (right, wrong, digit-like characters, huge, signed, blank), and bare parameters in Content-Disposition
        for cl in ('3', '4', '0', '\u00b2', '\u2461', '\u0663', '9' * 5000, '-1', '+3', ' 3 ', '3.0', '', '0x3', '3e0', '\uff13'):
            for fn in (None, 'x.bin'):
                p0 = {'name': 'a', 'value': b'abc', 'extra_headers': [('Content-Length', cl)]}
                if fn:
                    p0['filename'] = fn
                bd, _ = encode_multipart('bnd', [p0, {'name': 'b', 'value': b'tail'}], b'', b'\r\n')
                ctx.guarded(check_case, {'family': 'multipart', 'body': bd, 'ctype': 'multipart/form-data; boundary=bnd', 'boundary': 'bnd', 'mutations': [['part_length', 0, 0]],
                                         'framing': 'length', 'fr_a': 0, 'fr_b': 1, 'chunks': [], 'B': 102400, 'access': ['POST', 'files'], 'pattern': [], 'method': 'POST'})
        for b in range(10):
            mutated = mutate(wf2, truth2, 'hdr_barename', 0, b, 'bnd')
            for a in (0, 1, 2):
                mutated2 = mutate(wf2, truth2, 'hdr_barename', a, b, 'bnd')
                for acc in (['POST'], ['forms'], ['files']):
                    ctx.guarded(check_case, {'family': 'multipart', 'body': mutated2, 'ctype': 'multipart/form-data; boundary=bnd', 'boundary': 'bnd', 'mutations': [['hdr_barename', a, b]],
                                             'framing': 'length', 'fr_a': 0, 'fr_b': 1, 'chunks': [], 'B': 102400, 'access': acc, 'pattern': [], 'method': 'POST'})
        ctx.count('part_length_and_bare_parameter_grid')
        # boundary lengths around and beyond the RFC limit of 70, well-formed / truncated / empty bodies, every reader, both framings
        for L in (1, 69, 70, 71, 72, 100, 1000):
            bnd = 'x' * L
            good, _ = encode_multipart(bnd, [{'name': 'a', 'value': b'one'}, {'name': 'f', 'filename': 'x.bin', 'value': b'file data'}], b'', b'\r\n')
            for bd in (good, good[:len(good) // 2], b''):
                for acc in (['forms'], ['files'], ['POST'], ['body'], ['params']):
                    for fr in ('length', 'chunked'):
                        ctx.guarded(check_case, {'family': 'multipart', 'body': bd, 'ctype': 'multipart/form-data; boundary=' + bnd, 'boundary': bnd, 'mutations': [['boundary_length', L, 0]],
                                                 'framing': fr, 'fr_a': 0, 'fr_b': 1, 'chunks': [50], 'B': 102400, 'access': acc, 'pattern': [], 'method': 'POST'})
        ctx.count('boundary_length_grid')
        # one malformed body of every family / framing served by a worker thread instead of the thread that imported the framework
        for fam, bd, ct in (('json', b'{"a":', 'application/json'), ('json', b'[' * 3000, 'application/json'), ('multipart', body[:40], 'multipart/form-data; boundary=bnd'),
                            ('multipart', body, 'multipart/form-data; boundary=bnd'), ('urlencoded', b'a=%zz&b', 'application/x-www-form-urlencoded'),
                            ('raw', b'\xff\xfe', 'multipart/form-data; boundary=b'), ('multipart', body + body, 'multipart/form-data')):
            for fr in ('length', 'short', 'long', 'chunked', 'chunked_trunc', 'chunked_corrupt'):
                for acc in (['forms'], ['json'], ['POST', 'files'], ['body']):
                    for B in (16, 102400):
                        ctx.guarded(check_case, {'family': fam, 'body': bd, 'ctype': ct, 'boundary': 'bnd', 'mutations': [['worker_thread', 0, 0]], 'framing': fr, 'fr_a': 9, 'fr_b': 120,
                                                 'chunks': [7], 'B': B, 'access': acc, 'pattern': [], 'method': 'POST', 'thread': True})
        ctx.count('worker_thread_grid')
    n = 4000 if ctx.tier == 'quick' else 40000
    ctx.hyp(case_st().map(lambda c: dict(c, thread=True) if len(c['body']) % 5 == 0 else c), check_case, n)
    if ctx.tier == 'thorough' and ctx.shard < 4:
        from vlib import fuzz
        parts = [{'name': 'a', 'value': b'one'}, {'name': 'f', 'filename': 'x.bin', 'ctype': 'text/plain', 'value': b'file\r\ndata--'}]
        wf, _ = encode_multipart('b', parts, b'', b'\r\n')
        seeds = [] if ctx.shard % 2 else [b'\x00\x00\x00' + wf, b'\x03\x00\x04{"a": [1, 2, {"b": null}]}', b'\x04\x02\x00a=1&b=%zz&c']
        fuzz.campaign(ctx, __import__('checks.c12_malformed', fromlist=['x']), runs=120000, max_len=600, seeds=seeds)


def replay(ctx, case):
    check_case(ctx, case)
