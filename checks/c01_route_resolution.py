"""C01  Route resolution equals the plain rule-by-rule semantics."""
import itertools
import re
import sys

from hypothesis import strategies as st

from vlib import rules as R
from vlib.core import CheckFailure, load_corpus, fmt_exc
from vlib.wsgi import make_environ, call_app

ID = 'C01'
LEVEL = 'exploration'
RULE = ('case = 1-6 rule ASTs (literal / plain-wildcard / int / float / re / path segments over a colliding alphabet a, b, ab, abc, /, digits, -, ., '
        'e-acute, CJK; later rules derived from earlier ones: extend, truncate, literal<->wildcard, rename, refilter, split a literal, same pattern with '
        'other names and another method or the same method with overwrite=True; some rules are registered and removed again before the requests; a rule may lose its method again through the Route object (it stays, answers 405 and still beats a sibling wildcard rule) or get a further method attached through the Route object; a registration may name a LIST of methods (any spelling, repeats) and is then refused as a whole when one of them is taken: refused registrations count for nothing, requests are made with every method any registration listed, and the refusals are replayed on the application too), each rendered into a generated rule-syntax flavour (:name, <name>, {name}, <name.f(args)>, <name:f(args)>, '
        '<name:f:args>, <f(args)>, <:f(args)>, {:f} ...) and registered; 8 request paths per set: instantiations of the accepted rules with values from '
        'per-filter pools (12, -3, 007, 1.5, tom, a/b, empty ...), one-character edits (insert / delete / replace incl. CR, LF, //), extra slashes, raw '
        'strings, a digit run blown up to thousands of digits around and beyond sys.get_int_max_str_digits() (there a ValueError from resolve / a 500 that reached no handler is counted, not judged; a handler reached with an int / float wildcard that is not an int / a float is a violation). Oracle = independent reference matcher (left-to-right, no backtracking inside a rule; priority: literal beats wildcard at the first '
        'difference): RadiRouter.resolve(path, [M]) selects the same route / 404 / 405, kwargs == named wildcards of the rule that registered method '
        'M, converted by the filter; the same through Ombott.__call__ (handler kwargs, status). Cases whose verdict depends on whether a wildcard may '
        'bind the empty string are counted, not judged. Non-trivial = >= 2 accepted rules and the path matches >= 1; distinct by (rules, path).')
ASSUMPTIONS = ['reference matcher vlib/rules.py is trusted (about 60 lines, no shared code with the router)',
               'a registration that raises is a rejected rule and is left out of the expected set',
               'empty wildcard bindings are an unspecified zone: judged only when both policies agree',
               'rules with a literal CR, a trailing "*", a leading "//", a path wildcard directly followed by a wildcard, or duplicate names are outside the domain']

METHODS = ['GET', 'POST', 'PUT', 'DELETE', 'PATCH']
INT_LIMIT = getattr(sys, 'get_int_max_str_digits', lambda: 0)()          # int() refuses decimal text with more digits (0 = no limit)
_L = INT_LIMIT or 4300
LONG_DIGITS = ['9' * (_L - 1), '9' * _L, '9' * (_L + 1), '1' + '0' * (_L + 700), '0' * (_L + 1) + '7']


def methods_of(reg):
    """(argument handed to add() / route(), the distinct methods it names in upper case)"""
    if reg.get('methods'):
        return list(reg['methods']), list(dict.fromkeys(m.upper() for m in reg['methods']))
    return reg['method'], [reg['method'].upper()]


def beyond_int(asts, path):
    """the path holds a digit run int() refuses and some rule has an int wildcard: conversion cannot succeed there. What the router does instead of
    converting (on the pinned tree the ValueError of int() escapes from resolve / the request ends in 500) is not judged; reaching a handler is."""
    if not INT_LIMIT or not re.search(r'\d{%d}' % (INT_LIMIT + 1), path):
        return False
    return any(s[0] == 'w' and s[2] == 'int' for a in asts for s in a)


def all_asts(case):
    """every rule the case hands to the router at some time (registered, refused, removed again, hook prefixes)"""
    return [r['ast'] for r in case['regs']] + [h['ast'] for h in case.get('hooks') or ()]


def unconverted(ast, params):
    """names of the int / float wildcards of the rule whose value in the handler's kwargs is not an int / a float"""
    want = {s[1]: {'int': int, 'float': float}[s[2]] for s in ast if s[0] == 'w' and s[1] and s[2] in ('int', 'float')}
    return [k for k, t in want.items() if k in params and type(params[k]) is not t]


@st.composite
def case_st(draw):
    base = draw(R.rule_st())
    asts = [base]
    for _ in range(draw(st.integers(0, 5))):
        src = draw(st.sampled_from(asts))
        asts.append(draw(st.one_of(R.derived_rule_st(src), R.derived_rule_st(src), R.rule_st(4))))
    spell = draw(st.integers(0, 1))
    regs = []
    for i, a in enumerate(asts):
        regs.append({'ast': a, 'choice': draw(st.lists(st.integers(0, 30), max_size=3)), 'method': METHODS[i % len(METHODS)] if draw(st.integers(0, 3)) else 'GET',
                     'overwrite': draw(st.integers(0, 3)) == 0,           # re-registration of a (pattern, method) under a rule that may name its wildcards differently
                     'remove_after': draw(st.integers(0, 5)) == 0,         # registered, then removed again: the router must answer as if it had never been there
                     'strip': draw(st.integers(0, 7)) == 0,                # the method is taken away again through the Route object: the rule stays and still selects its paths (405)
                     'attach': draw(st.sampled_from([None, None, None, None, 'PATCH', 'PUT']))})   # a further method attached through the Route object
        if draw(st.integers(0, 3)) == 0:
            # one registration for a LIST of methods (any spelling, a method may occur twice): refused as a whole when one of them is taken on the pattern
            regs[-1]['methods'] = draw(st.lists(st.sampled_from(METHODS + ['get', 'Post', 'put']), min_size=2, max_size=3))
    paths = []
    for _ in range(8):
        if draw(st.integers(0, 9)) == 0:
            paths.append('/' + draw(st.text(st.sampled_from(list('ab/1-.té\r')), max_size=8)))
        else:
            paths.append(draw(R.path_for(draw(st.sampled_from(asts)))))
            if draw(st.integers(0, 31)) == 0:
                # a digit run of the path blown up to thousands of digits (around / beyond what int() takes)
                paths[-1] = re.sub(r'\d+', draw(st.sampled_from(LONG_DIGITS)), paths[-1], count=1)
    hooks = []
    for _ in range(draw(st.sampled_from([0, 0, 0, 1, 2]))):
        src = draw(st.sampled_from(asts))
        hooks.append({'ast': src[:draw(st.integers(1, max(1, len(src))))], 'type': draw(st.sampled_from([0, 0, 1]))})
    return {'regs': regs, 'spell': spell, 'paths': paths, 'hooks': hooks}


_LAST = {}


def register(case):
    """-> (router, accepted: list of (idx, ast, method or None), rule texts {idx: text}).
    A registration may be followed by `strip` (its method is taken away again through the Route object: the rule stays, with no method)
    or `attach` (a further method is attached through the Route object, without wildcard names of its own: entry idx + 1000)."""
    from ombott.router.radirouter import RadiRouter
    router = RadiRouter()
    accepted = []
    texts = {}
    events = []
    first_on = {}                   # pattern key -> ast of the rule that created the Route object
    _LAST['events'] = events        # the successful steps in order, replayed on an application by _wsgi_part
    mk = lambda i: (lambda **kw: (i, kw))   # noqa
    # route hooks (on_route / per-prefix 404 handlers) on rule prefixes that need not have a handler of their own: they never change which rule answers a path
    for hk in case.get('hooks') or ():
        htext = R.render(R.merge(hk['ast']), (), case['spell']) if hk['ast'] and hk['ast'][0][0] == 'lit' and hk['ast'][0][1].startswith('/') else None
        if htext is None or not R.legal(R.merge(hk['ast'])):
            continue
        try:
            router.add_hook(htext, (lambda *a: None), hook_type=hk.get('type', 0))
            events.append(('hook', 0, htext, hk.get('type', 0)))
        except Exception:
            pass
    for i, reg in enumerate(case['regs']):
        text = R.render(reg['ast'], reg['choice'], case['spell'])
        texts[i] = text
        if text is None or not R.legal(reg['ast']):
            continue
        marg, mlist = methods_of(reg)
        try:
            router.add(text, marg, mk(i), overwrite=bool(reg.get('overwrite')))
        except Exception:  # rejected registration (filter conflict at one tree position, method taken, ...): counts for nothing, whatever it listed
            events.append(('refused', i, R.merge(reg['ast']), marg))
            continue
        ast = R.merge(reg['ast'])
        key = R.pattern_key(ast)
        first_on.setdefault(key, ast)
        # an accepted overwrite replaces the earlier registration of the same (pattern, method)
        accepted = [(j, a, m) for (j, a, m) in accepted if not (m in mlist and R.pattern_key(a) == key)]
        accepted += [(i, ast, m) for m in mlist]
        events.append(('add', i, ast, marg))
        if reg.get('attach') and not any(m == reg['attach'] and R.pattern_key(a) == key for _, a, m in accepted):
            router[{text}].add_method(reg['attach'], mk(i + 1000))
            texts[i + 1000] = '%s (+%s attached through the Route object)' % (text, reg['attach'])
            accepted.append((i + 1000, first_on[key], reg['attach']))
            events.append(('attach', i, first_on[key], reg['attach']))
        if reg.get('strip'):
            router[{text}].remove_method(mlist)
            accepted = [(j, a, (None if j == i else m)) for (j, a, m) in accepted]
            events.append(('strip', i, ast, mlist))
    # rules flagged remove_after are taken out again (by rule text): only the survivors count
    for i, reg in enumerate(case['regs']):
        if reg.get('remove_after') and any(j == i for j, _, _ in accepted):
            key = R.pattern_key(R.merge(reg['ast']))
            try:
                router.remove(texts[i])
            except Exception:
                raise CheckFailure(f'remove({texts[i]!r}) raised')
            accepted = [(j, a, m) for (j, a, m) in accepted if R.pattern_key(a) != key]
            events.append(('remove', i, key, None))
    return router, accepted, texts


def expect(accepted, path):
    """-> dict(kind=404|405|'ok', idx, kwargs) or None when the verdict hangs on the empty-binding policy."""
    asts = [a for _, a, _ in accepted]
    strict, lenient, agreed = R.verdict(asts, path.strip('/'))
    if not agreed:
        return None, 'unspecified_empty'
    sel = strict if strict is not None else lenient
    if sel is None:
        return {'kind': 404}, None
    if (strict is None) != (lenient is None):
        return None, 'unspecified_empty'
    key = R.pattern_key(asts[sel[0]])
    mates = [(i, a, m) for (i, a, m) in accepted if R.pattern_key(a) == key]
    return {'kind': 'route', 'mates': mates, 'strict': strict is not None}, None


def check_case(ctx, case):
    router, accepted, texts = register(case)
    events = _LAST['events']
    ctx.count('rules_accepted', len({j for j, _, _ in accepted}))
    refused = [e for e in events if e[0] == 'refused']
    ctx.count('rules_rejected', len(refused))
    listed = set()                  # every method any registration named, the refused ones included
    for reg in case['regs']:
        listed.update(methods_of(reg)[1])
        if reg.get('methods'):
            ctx.count('registration_with_method_list')
    for e in refused:
        if isinstance(e[3], list):
            ctx.count('refused_registration_with_method_list')
            taken = {m for _, a, m in accepted if R.pattern_key(a) == R.pattern_key(e[2])}
            ms = [m.upper() for m in e[3]]
            if any(m not in taken for m in ms):
                ctx.count('refused_method_list_naming_a_free_method')
    if not accepted:
        ctx.count('no_rule_accepted')
        return
    asts = [a for _, a, _ in accepted]
    desc = [(texts[i], m) for i, _, m in accepted]
    for path in case['paths']:
        exp, why = expect(accepted, path)
        if exp is None:
            ctx.exclude(why)
            continue
        sp = path.strip('/')
        nmatch = sum(1 for a in asts if R.match(a, sp, False) is not None)
        zone = beyond_int(all_asts(case), path)
        if zone:
            ctx.count('path_with_digit_run_beyond_int_limit')
        for method in sorted({m for _, _, m in accepted if m} | {'GET'} | listed):
            try:
                end_point, err = router.resolve(path, [method])
            except Exception as e:
                if zone and isinstance(e, ValueError):
                    ctx.count('int_conversion_failed_no_handler_reached(unjudged)')
                    continue
                raise CheckFailure(f'resolve({_cut(path)!r}, {method}) raised {fmt_exc(e)} on rules {desc}')
            if end_point is not None:
                got_ast = {j: a for j, a, _ in accepted}.get(end_point[0].handler()[0])
                bad = unconverted(got_ast, end_point[1]) if got_ast else []
                if bad:
                    raise CheckFailure(f'rules {desc}: {_cut(path)!r} {method}: resolve hands the handler of {texts[end_point[0].handler()[0]]!r} the wildcard(s) {bad} as '
                                       f'{[type(end_point[1][k]).__name__ for k in bad]}, not converted by their filter')
            if exp['kind'] == 404:
                if end_point is not None or not err or err[0] != 404:
                    raise CheckFailure(f'rules {desc}: no rule matches {path!r} but resolve answered {_show(end_point, err)}')
                continue
            mate = [(i, a) for (i, a, m) in exp['mates'] if m == method]
            if not mate:
                if end_point is not None or not err or err[0] != 405:
                    raise CheckFailure(f'rules {desc}: {path!r} selects the route of {texts[exp["mates"][0][0]]!r} (no {method} there), expected 405, got {_show(end_point, err)}')
                continue
            i, ast = mate[-1] if False else mate[0]
            b = R.match(ast, sp, not exp['strict'])
            want = R.named(b)
            if end_point is None:
                raise CheckFailure(f'rules {desc}: {path!r} matches {texts[i]!r} ({method}) with {want!r}, resolve answered {_show(end_point, err)}')
            meth, params, hooks = end_point
            got_i, _ = meth.handler()
            if got_i != i:
                raise CheckFailure(f'rules {desc}: {path!r} {method} must reach the handler of {texts[i]!r}, reached the handler of {texts[got_i]!r}')
            if params != want or any(type(params[k]) is not type(want[k]) for k in want):
                raise CheckFailure(f'rules {desc}: {path!r} {method} -> {texts[i]!r}: kwargs {params!r}, expected {want!r}')
        # classification
        if exp['kind'] == 'route':
            ctx.count('path_matches')
            if nmatch >= 2:
                ctx.count('several_rules_match(priority)')
            if len(exp['mates']) >= 2:
                ctx.count('several_rules_on_one_pattern')
            if len(accepted) >= 2:
                ctx.nontrivial(repr((desc, path)), sample={'rules': desc, 'path': path})
        else:
            ctx.count('path_404')
        if '\r' in path:
            ctx.count('cr_in_path')
        if '//' in path.strip('/'):
            ctx.count('empty_segment')
        if any(ord(c) > 127 for c in path):
            ctx.count('non_ascii_path')
    _wsgi_part(ctx, case, accepted, texts, events)


def _cut(path):
    return path if len(path) < 200 else '%s...(%d characters)...%s' % (path[:60], len(path), path[-40:])


def _show(end_point, err):
    if end_point is not None:
        meth, params, _ = end_point
        return f'route {meth.route.rule!r} method {meth.name} kwargs {params!r}'
    return f'error {err[0] if err else None}'


def _wsgi_part(ctx, case, accepted, texts, events):
    """The same rule set behind Ombott.__call__: what the handler really receives."""
    import ombott
    app = ombott.Ombott()
    box = {}
    ok = []
    # the same history on the application, with requests served after EVERY step (what was answered before a registration must not stick)
    also = []                       # methods named by refused registrations so far: asked after every step
    for n, (ev, i, ast, m) in enumerate(events):
        if ev in ('add', 'refused'):
            def h(_i=i, **kw):
                box['got'] = (_i, kw)
                return 'h'
            mlist = methods_of(case['regs'][i])[1]
            try:
                app.route(texts[i], method=m, callback=h, overwrite=bool(case['regs'][i].get('overwrite')))
            except Exception:
                if ev == 'add':
                    raise CheckFailure(f'rule {texts[i]!r} was accepted by RadiRouter.add but rejected by Ombott.route on an identical history')
                # the refused registration replayed on the application: refused there too, and it must not count for anything afterwards
                also += [x for x in mlist if x not in also]
                ctx.count('refused_registration_replayed_on_application')
            else:
                if ev == 'refused':
                    raise CheckFailure(f'rule {texts[i]!r} (methods {m!r}) was refused by RadiRouter.add but accepted by Ombott.route on an identical history')
                ok = [(j, a, mm) for (j, a, mm) in ok if not (mm in mlist and R.pattern_key(a) == R.pattern_key(ast))]
                ok += [(i, ast, mm) for mm in mlist]
        elif ev == 'hook':
            try:
                if m:
                    app.error(404, rule=ast)(lambda *a: app.abort(404) if False else __import__('ombott').HTTPError(404, 'hooked'))
                else:
                    app.on_route(ast, lambda *a: None)
            except Exception:
                pass
        elif ev == 'attach':
            def h2(_i=i + 1000, **kw):
                box['got'] = (_i, kw)
                return 'h'
            app.router[{texts[i]}].add_method(m, h2)
            ok.append((i + 1000, ast, m))
        elif ev == 'strip':
            app.router[{texts[i]}].remove_method(m)
            ok = [(j, a, (None if j == i else mm)) for (j, a, mm) in ok]
        else:
            try:
                app.remove_route(texts[i])
            except Exception as e:
                raise CheckFailure(f'remove_route({texts[i]!r}) raised {fmt_exc(e)}')
            ok = [(j, a, mm) for (j, a, mm) in ok if R.pattern_key(a) != ast]
        last = n == len(events) - 1
        _serve(ctx, app, box, ok, texts, case['paths'] if last else case['paths'][:4], every_method=last, also=also, every_ast=all_asts(case))


def _serve(ctx, app, box, ok, texts, paths, every_method, also=(), every_ast=()):
    for path in paths:
        try:
            path.encode('utf8')
        except UnicodeError:
            continue
        exp, why = expect(ok, path) if ok else ({'kind': 404}, None)
        if exp is None:
            continue
        verbs = sorted({m for _, _, m in ok if m}) or ['GET']
        verbs = verbs if every_method else verbs[:1]
        zone = beyond_int(every_ast, path)
        for method in verbs + [m for m in also if m not in verbs]:
            box.clear()
            r = call_app(app, make_environ(method, path))
            if r.escaped is not None:
                raise CheckFailure(f'{method} {_cut(path)!r}: exception escaped: {fmt_exc(r.escaped)}')
            desc = [(texts[i], m) for i, _, m in ok]
            if 'got' in box:
                got_ast = {j: a for j, a, _ in ok}.get(box['got'][0])
                bad = unconverted(got_ast, box['got'][1]) if got_ast else []
                if bad:
                    raise CheckFailure(f'rules {desc} (registered so far): {method} {_cut(path)!r}: the handler of {texts[box["got"][0]]!r} was called with the wildcard(s) {bad} as '
                                       f'{[type(box["got"][1][k]).__name__ for k in bad]}, not converted by their filter')
            elif zone and r.code == 500:
                ctx.count('int_conversion_failed_500_no_handler_reached(unjudged)')
                continue
            if exp['kind'] == 404:
                want_code = 404
            else:
                mate = [(i, a) for (i, a, m) in exp['mates'] if m == method]
                want_code = 200 if mate else 405
            if r.code != want_code:
                raise CheckFailure(f'rules {desc} (registered so far): {method} {path!r} answered {r.status!r}, expected {want_code}; {r.errors[-500:]}')
            if want_code == 200:
                i, ast = mate[0]
                want = R.named(R.match(ast, path.strip('/'), not exp['strict']))
                if box.get('got') != (i, want):
                    raise CheckFailure(f'rules {desc} (registered so far): {method} {path!r}: handler call {box.get("got")!r}, expected handler of {texts[i]!r} with {want!r}')
            ctx.count('wsgi_requests')


# ------------------------------------------------------------------ exhaustive small universe
def small_universe(ctx):
    segs = [['lit', 'a'], ['lit', 'ab'], ['lit', '/'], ['w', 'w', None, None], ['w', 'n', 'int', None], ['w', 'r', 're', r'-?\d+']]
    rules = []
    for n in (1, 2, 3):
        for combo in itertools.product(segs, repeat=n):
            ast = R.merge([['lit', '/']] + [list(s) for s in combo])
            names = 0
            for s in ast:
                if s[0] == 'w':
                    s[1] = s[1] + str(names)
                    names += 1
            if R.legal(ast) and R.renderable(ast) and ast not in rules:
                rules.append(ast)
    alphabet = ['a', 'b', '/', '1', '\r']
    paths = ['/' + ''.join(p) for n in range(0, 5) for p in itertools.product(alphabet, repeat=n)]
    pairs = [(x, y) for x in rules for y in rules if x is not y]
    step = 1 if ctx.tier == 'thorough' else 97
    mine = pairs[ctx.shard::max(1, ctx.nshards)][::step]
    for x, y in mine:
        case = {'regs': [{'ast': x, 'choice': [], 'method': 'GET'}, {'ast': y, 'choice': [1], 'method': 'POST'}], 'spell': 0, 'paths': paths}
        ctx.evals += 1
        _small_case(ctx, case)
    ctx.count('small_universe_rule_pairs', len(mine))
    ctx.count('small_universe_paths_per_pair', len(paths))


def _small_case(ctx, case):
    router, accepted, texts = register(case)
    if not accepted:
        return
    try:
        for path in case['paths']:
            exp, why = expect(accepted, path)
            if exp is None:
                continue
            for method in ('GET', 'POST'):
                end_point, err = router.resolve(path, [method])
                if exp['kind'] == 404:
                    ok = end_point is None and err[0] == 404
                else:
                    mate = [(i, a) for (i, a, m) in exp['mates'] if m == method]
                    if not mate:
                        ok = end_point is None and err[0] == 405
                    else:
                        i, ast = mate[0]
                        want = R.named(R.match(ast, path.strip('/'), not exp['strict']))
                        ok = end_point is not None and end_point[0].handler()[0] == i and end_point[1] == want
                if not ok:
                    raise CheckFailure(f'small universe: rules {[texts[i] for i, _, _ in accepted]} path {path!r} {method}: {_show(end_point, err)}, expected {exp}')
    except CheckFailure as f:
        bad = dict(case, paths=[path])
        ctx.record_violation(bad, str(f))


def fixed_grid(ctx):
    """Deterministic cases for classes that random generation reaches only now and then: assertions in filter expressions away from
    offset 0, digit-like characters next to int / float wildcards, converted values that are falsy."""
    L = lambda t: ['lit', t]   # noqa
    W = lambda n, f=None, a=None: ['w', n, f, a]   # noqa
    rule_sets = [
        [[L('/user/'), W('name', 're', '^[a-z]+$')], [L('/user/'), W('name', 're', '^[a-z]+$'), L('/x')]],
        [[L('/w'), W('n', 're', r'\B\d+')], [L('/w'), W('n', 're', r'(?<![a-z])\d+'), L('!')]],
        [[L('/a/'), W('t', 're', r'\bto.'), L('/'), W('d', 're', r'^\d+')]],
        [[L('/item/'), W('id', 'int')], [L('/pow/'), W('base', 'int'), L('\u00b2')], [L('/f/'), W('v', 'float'), L('x')]],
        [[L('/n/'), W('a', 'int'), L('/'), W('b', 'float'), L('/'), W('c')]],
    ]
    paths = ['/user/bob', '/user/bob/x', '/user/Bob', '/w12', '/w12!', '/wa12!', '/a/tom/42', '/a/to//7', '/item/0', '/item/-0', '/item/000', '/item/\u00b2', '/item/5\u00b2',
             '/item/\u0663', '/item/\uff15', '/item/\u2460', '/pow/5\u00b2', '/pow/\u00b2', '/f/0.0x', '/f/1\u00b2x', '/n/0/0.0/0', '/n/-0/-0.0/', '/n/1/2/3', '/f/0x']
    for rs in rule_sets:
        case = {'regs': [{'ast': R._fix(a), 'choice': [2], 'method': 'GET'} for a in rs], 'spell': 0, 'paths': paths}
        ctx.guarded(check_case, case)
    ctx.count('fixed_grid_rule_sets', len(rule_sets))
    # the same (pattern, method) registered again with overwrite=True under other / anonymous wildcard names; registered and removed again
    ow_sets = [
        ([[L('/item/'), W('id', 'int')], [L('/item/'), W('num', 'int')]], ['GET', 'GET']),
        ([[L('/item/'), W('id', 'int')], [L('/item/'), W(None, 'int')]], ['GET', 'GET']),
        ([[L('/item/'), W(None, 'int')], [L('/item/'), W('id', 'int')]], ['GET', 'GET']),
        ([[L('/u/'), W('a'), L('/'), W('b')], [L('/u/'), W('b'), L('/'), W('a')]], ['POST', 'POST']),
        ([[L('/u/'), W('a'), L('/'), W('b')], [L('/u/'), W('x'), L('/'), W('y')], [L('/u/'), W('p'), L('/'), W('q')]], ['GET', 'POST', 'GET']),
        ([[L('/f/'), W('v', 'float'), L('x')], [L('/f/'), W('w', 'float'), L('x')], [L('/f/'), W('v', 'float'), L('x')]], ['GET', 'GET', 'GET']),
    ]
    ow_paths = ['/item/7', '/item/-3', '/item/x', '/u/1/2', '/u/a/b', '/u/a', '/f/1.5x', '/f/2x', '/item/7/', '/u/a/b/']
    for rs, ms in ow_sets:
        for flags in ([False] + [True] * (len(rs) - 1), [True] * len(rs)):
            for rm in (None, 0, len(rs) - 1):
                for spell in (0, 1):
                    regs = [{'ast': R._fix(a), 'choice': [2], 'method': m, 'overwrite': f, 'remove_after': rm == i} for i, (a, m, f) in enumerate(zip(rs, ms, flags))]
                    ctx.guarded(check_case, {'regs': regs, 'spell': spell, 'paths': ow_paths})
    ctx.count('fixed_grid_overwrite_sets', len(ow_sets))
    # one registration for a LIST of methods, refused as a whole because one of them is taken on the pattern (a free method listed before the taken one, after it,
    # the same method in two spellings), followed by requests with every listed method and by further registrations of the methods that stayed free
    ml_sets = [
        ([[L('/item/'), W('id', 'int')], [L('/item/'), W('num', 'int')]], ['POST', ['PUT', 'POST']]),
        ([[L('/item/'), W('id', 'int')], [L('/item/'), W('num', 'int')], [L('/item/'), W('k', 'int')]], ['POST', ['PUT', 'POST'], 'PUT']),
        ([[L('/u/'), W('a'), L('/'), W('b')], [L('/u/'), W('x'), L('/'), W('y')]], ['GET', ['DELETE', 'PATCH', 'GET']]),
        ([[L('/u/'), W('a'), L('/'), W('b')], [L('/u/'), W('x'), L('/'), W('y')]], ['POST', ['POST', 'DELETE']]),
        ([[L('/u/'), W('a'), L('/'), W('b')], [L('/u/'), W('x'), L('/'), W('y')]], ['POST', ['PUT', 'DELETE']]),
        ([[L('/fresh/'), W('name')], [L('/fresh/'), W('other')]], [['GET', 'get'], 'GET']),
        ([[L('/fresh/'), W('name')], [L('/fresh/'), W('other')]], [['GET', 'get'], ['put', 'PUT', 'Get']]),
        ([[L('/fresh/'), W('name')], [L('/fresh/'), W('other')], [L('/fresh/'), W('third')]], ['get', ['Put', 'GET'], ['PUT', 'put']]),
        ([[L('/only')], [L('/only')], [L('/'), W('w')]], ['GET', ['PUT', 'GET'], 'GET']),
        ([[L('/a/'), W('x')], [L('/a/b')], [L('/a/b')], [L('/a/b')]], ['GET', 'POST', ['GET', 'POST'], 'GET']),
    ]
    ml_paths = ['/item/7', '/item/x', '/u/1/2', '/fresh/abc', '/only', '/a/b', '/a/c', '/item/7/', '/fresh/']
    for rs, ms in ml_sets:
        for ow in (False, True):
            for rm in (None, 0):
                for spell in (0, 1):
                    regs = []
                    for i, (a, m) in enumerate(zip(rs, ms)):
                        regs.append({'ast': R._fix(a), 'choice': [2], 'method': m if isinstance(m, str) else 'GET', 'overwrite': ow and isinstance(m, list), 'remove_after': rm == i})
                        if isinstance(m, list):
                            regs[-1]['methods'] = m
                    ctx.guarded(check_case, {'regs': regs, 'spell': spell, 'paths': ml_paths})
    ctx.count('fixed_grid_method_list_sets', len(ml_sets))
    # int / float wildcards offered thousands of digits, around and beyond what int() converts; alone, with a sibling rule that could take the text unconverted, in the middle of a rule
    for rs in ([[L('/n/'), W('x', 'int'), L('/tail')]], [[L('/item/'), W('id', 'int')], [L('/item/'), W('name')]], [[L('/item/'), W('id', 'int')], [L('/item/'), W('name', 're', '[0-9a-z]+')]],
               [[L('/n/'), W('a', 'int'), L('/'), W('b', 'float'), L('/'), W('c')]], [[L('/f/'), W('v', 'float')], [L('/n/'), W('x', 'int'), L('/tail')]], [[L('/n/'), W(None, 'int'), L('/'), W('t')]]):
        ps = []
        for d in LONG_DIGITS[1:4]:
            ps += ['/n/%s/tail' % d, '/n/-%s/tail' % d, '/item/' + d, '/item/-' + d, '/n/%s/1.5/x' % d, '/n/7/%s/x' % d, '/n/7/1.5/' + d, '/f/' + d, '/f/%s.%s' % (d, d), '/n/%s/t' % d]
        ctx.guarded(check_case, {'regs': [{'ast': R._fix(a), 'choice': [2], 'method': 'GET'} for a in rs], 'spell': len(rs) % 2, 'paths': ps})
    ctx.count('fixed_grid_digit_runs_around_int_limit')
    # registered and removed again, exhaustively: every 3-subset of nine rules that share prefixes, each member removed in turn
    import itertools
    uni = [[L('/a')], [L('/a/b')], [L('/ab')], [L('/a/'), W('x')], [L('/a/'), W('x'), L('/c')], [L('/a/'), W('p', 'path'), L('/'), W('t'), L('a')], [L('/abc/d')],
           [L('/a/b/'), W('n', 'int')], [L('/'), W('p', 'path'), L('/'), W('a'), L('a')]]
    rm_paths = ['/a', '/a/b', '/ab', '/a/x', '/a/x/c', '/a/b/7', '/abc/d', '/a/a/b/tom/', '/a/a/b/toma', '/a/b/c', '/abc', '/a/', '/a/b/ca', '/x/y/za']
    nsets = 0
    for combo in itertools.combinations(range(len(uni)), 3):
        for rm in combo:
            regs = [{'ast': R._fix(uni[i]), 'choice': [2], 'method': 'GET', 'overwrite': False, 'remove_after': i == rm} for i in combo]
            ctx.guarded(check_case, {'regs': regs, 'spell': 0, 'paths': rm_paths})
            nsets += 1
    ctx.count('fixed_grid_remove_sets', nsets)
    # a more specific rule registered AFTER the path was already answered through a more general one (and the reverse order)
    late = [([L('/doc/'), W('page')], [L('/doc/index')], ['/doc/index', '/doc/other', '/doc/index/']),
            ([L('/f/'), W('p', 'path')], [L('/f/7/'), W('name')], ['/f/7/x', '/f/7/x/y', '/f/8/x']),
            ([L('/n/'), W('v')], [L('/n/'), W('v', 'int')], ['/n/12', '/n/tom']),
            ([L('/'), W('a'), L('/'), W('b')], [L('/x/'), W('b')], ['/x/1', '/y/1'])]
    for g, sp_, ps in late:
        for order in ((g, sp_), (sp_, g)):
            for spell in (0, 1):
                ctx.guarded(check_case, {'regs': [{'ast': R._fix(a), 'choice': [2], 'method': 'GET'} for a in order], 'spell': spell, 'paths': ps})
    ctx.count('fixed_grid_late_specific_rule', len(late))
    # rules that keep their place with no method left (405, and still ahead of a sibling wildcard rule); methods attached through the Route object
    for stripped, other, ps in (([L('/item/new')], [L('/item/'), W('id')], ['/item/new', '/item/7']), ([L('/only')], [L('/other')], ['/only', '/other']),
                                ([L('/u/'), W('uid', 'int'), L('/posts')], [L('/u/'), W('uid', 'int'), L('/posts/'), W('pid', 'int')], ['/u/5/posts', '/u/5/posts/9'])):
        for order in (0, 1):
            for flags in (('strip', None), (None, 'attach'), ('strip', 'attach'), (None, None)):
                regs = [{'ast': R._fix(stripped), 'choice': [2], 'method': 'GET', 'strip': flags[0] == 'strip', 'attach': 'PUT' if flags[1] else None},
                        {'ast': R._fix(other), 'choice': [2], 'method': 'GET', 'attach': 'PUT' if flags[1] else None}]
                ctx.guarded(check_case, {'regs': regs[::-1] if order else regs, 'spell': 0, 'paths': ps})
    ctx.count('fixed_grid_stripped_and_attached')
    # a path wildcard followed by several literal segments that recur in the path; text that Unicode normalisation would rewrite (values and literals), through the application too
    for rs, ps in (([[L('/f/'), W('p', 'path'), L('/a/a/'), W('q')]], ['/f/x/a/a/y', '/f/x/a/a/a/y', '/f/a/a/a/a/z', '/f/x/a/b/a/a/y']),
                   ([[L('/g/'), W('p', 'path'), L('/ed/it/'), W('q', 'path')]], ['/g/a/ed/it/x/ed/y', '/g/a/ed/x/ed/it/z', '/g/ed/it/ed/it/ed']),
                   ([[L('/h/'), W('p', 'path'), L('/x/y/z')]], ['/h/a/x/y/z', '/h/a/x/b/x/y/z', '/h/x/y/x/y/z']),
                   ([[L('/n/'), W('v')], [L('/\u212b/'), W('v')], [L('/e\u0301/x')]], ['/n/e\u0301', '/n/\u2126', '/n/A\u030a', '/\u212b/1', '/\u00c5/1', '/e\u0301/x', '/\u00e9/x', '/n/\u00e9'])):
        for spell in (0, 1):
            ctx.guarded(check_case, {'regs': [{'ast': R._fix(a), 'choice': [2], 'method': 'GET'} for a in rs], 'spell': spell, 'paths': ps})
    ctx.count('fixed_grid_recurring_literals_and_normalisable_text')
    # a hook on a rule that has no handler of its own, where a sibling wildcard rule matches exactly that path
    for hk, rs, ps in (([L('/api/v1')], [[L('/api/'), W('version')], [L('/api/v1/users')]], ['/api/v1', '/api/v1/users', '/api/v2', '/api/v1/x']),
                       ([L('/a/b')], [[L('/a/'), W('p', 'path')], [L('/a/b/c')]], ['/a/b', '/a/b/c', '/a/b/d']),
                       ([L('/n/'), W('i', 'int')], [[L('/n/'), W('i', 'int'), L('/x')], [L('/n/'), W('s', 're', '[0-9a-z]+')]], ['/n/12', '/n/12/x', '/n/ab'])):
        for typ in (0, 1):
            for spell in (0, 1):
                ctx.guarded(check_case, {'regs': [{'ast': R._fix(a), 'choice': [2], 'method': 'GET'} for a in rs], 'spell': spell, 'paths': ps, 'hooks': [{'ast': R._fix(hk), 'type': typ}]})
    ctx.count('fixed_grid_hook_on_handlerless_rule')


def run(ctx):
    if ctx.shard == 0:
        fixed_grid(ctx)
    for name, case in load_corpus(ID):
        ctx.guarded(check_case, case)
        ctx.count('corpus')
    small_universe(ctx)
    n = 1500 if ctx.tier == 'quick' else 20000
    ctx.hyp(case_st(), check_case, n)


def replay(ctx, case):
    check_case(ctx, case)
