"""C09  Each response depends on its own request only; retained state is bounded."""
import gc
import itertools
import sys
import threading
import weakref

from hypothesis import strategies as st

from vlib import site as S
from vlib.core import CheckFailure, load_corpus, fmt_exc
from vlib.wsgi import call_app

ID = 'C09'
LEVEL = 'exploration'
RULE = ('request kinds (vlib/site.py): ok (sets cookie, header, status from its query), ok with JSON Accept, HEAD, 404 (HTML and JSON), 405, undecodable path, '
        'malformed chunked body, oversized body, unterminated multipart, well-formed multipart form with a per-request boundary, invalid JSON, handler crash after '
        'setting a header and a cookie, raised HTTPResponse with header and cookie, generator body, cookie-then-abort(403), every verb (HEAD, refused ones) on routes registered for GET only, '
        'standard and made-up verbs on a route registered for ANY, bodies of several sizes beyond max_memfile_size (plain and chunked) whose handler reads request.body to EOF and reports length / digest / both ends; '
        'every request is a function of (kind, n). '
        'Histories: operation lists of 2-30 requests generated as one shrinkable value, plus EVERY ordered pair of kinds exhaustively, plus every ordered triple '
        'whose middle element is an error kind (thorough), plus walks over one kind with n running up and down (every verb before and after every other on the same route; spilled bodies of falling and rising size, '
        'with in-memory bodies and forms in between). Oracle: response k of the history (status line, header multiset, body) == response of the same request '
        'on a fresh application; references are computed before the application under test is created, a second set on fresh threads (one thread per request, so that per-thread state shared by applications cannot reach them; response must equal both), those of the exhaustive pairs / triples in fresh interpreter processes (one request per process). Retention: environ objects (dict subclass) and input '
        'streams are weak-referenced; after N = 160 and N = 400 requests of one kind (and mixed) plus gc.collect() at most 10 are alive (the last request of the thread plus the last failing request referenced by each of the three shared error objects), the number does not grow between the two points, and the number of gc-tracked '
        'objects has not grown by more than 40 between N = 160 and N = 400 (300 and 2000 in thorough; N1 lies beyond the 128-entry urlsplit cache of the standard library). Non-trivial = consecutive requests of different kinds where the '
        'earlier one left state (cookie / header / status / error); distinct ordered kind pairs covered are reported.')
ASSUMPTIONS = ['one worker thread (reuse of the per-thread request/response objects is the mechanism under test)',
               '"constant" retention is operationalised as <= 10 live environ/stream objects, no growth between N1 and N2, <= 40 + (window / 10) additional gc-tracked objects over the 240 (thorough: 1700) further requests, and (third window, another 240 requests) at most one additional allocated memory block per request (sys.getallocatedblocks: strings, registry and cache entries that the gc census cannot see), measured after the bounded caches of the standard library (urlsplit LRU, 128 entries) are full',
               'reference responses come from applications created before the application under test (application independence is C10)']

LEAVES_STATE = {'ok', 'ok_json_accept', 'crash', 'raised', 'gen', 'cookie_then_abort', 'badchunk', 'oversized', 'badjson', 'badmultipart', 'notfound_json', 'badpath', 'head_ok'}
ERROR_KINDS = ['notfound', 'notfound_json', 'wrongverb', 'badpath', 'badchunk', 'oversized', 'badmultipart', 'badjson', 'crash', 'cookie_then_abort']


def _nodate(t):
    # (the Date header of static_file is the wall clock: not part of what a request determines)
    return (t[0], [h for h in t[1] if h[0] != 'Date'], t[2])


def triple(r):
    return _nodate((r.status, sorted(r.headers or []), r.body))


_FRESH = {}          # references computed in fresh interpreter processes (vlib/fresh.py), consulted first


def _app(cfg):
    # 'custom': an errors_map a user configured (error objects with texts that need escaping, shared by all requests of the application)
    return S.make_app(config={'errors_map': S.custom_errors()}) if cfg == 'custom' else S.make_app(private_errors=True)


def _on_fresh_thread(fn):
    # a fresh application on a fresh thread: per-thread state (thread-locals shared by all applications) starts empty, like in a fresh worker
    out = []

    def target():
        try:
            out.append((True, fn()))
        except BaseException as e:          # noqa
            out.append((False, e))
    t = threading.Thread(target=target)
    t.start()
    t.join()
    ok, v = out[0]
    if not ok:
        raise v
    return v


_THREAD_REFS = {}


def thread_reference(kind, n, cfg=None):
    # second reference: the same request served by a fresh application on a fresh thread (computed once per request: a request determines its response)
    key = (kind, n, cfg)
    if key not in _THREAD_REFS:
        r = _on_fresh_thread(lambda: call_app(_app(cfg), S.make_env(kind, n)))
        if r.escaped is not None:
            raise CheckFailure(f'reference request {key} on a fresh application on a fresh thread raised {fmt_exc(r.escaped)}')
        _THREAD_REFS[key] = triple(r)
    return _THREAD_REFS[key]


def reference(kind, n, cache, cfg=None):
    key = (kind, n) if not cfg else (kind, n, cfg)
    if key in _FRESH:
        return _nodate(_FRESH[key])
    if key not in cache:
        app = _app(cfg)
        r = call_app(app, S.make_env(kind, n))
        if r.escaped is not None:
            raise CheckFailure(f'reference request {key} on a fresh application raised {fmt_exc(r.escaped)}')
        cache[key] = triple(r)
    return cache[key]


def check_history(ctx, case):
    hist = [tuple(x) for x in case['history']]
    cache = {}
    cfg = case.get('cfg')
    refs = [reference(k, n, cache, cfg) for k, n in hist]         # phase 1: fresh applications
    trefs = [thread_reference(k, n, cfg) for k, n in hist]        # ... and fresh applications on fresh threads
    # phase 2: the application under test, created last; its error objects are its own (shared by all of ITS requests, which is the
    # mechanism under test) so that a case never depends on what earlier cases did to the process-wide DefaultConfig.errors_map
    app = _app(cfg)
    if cfg:
        ctx.count('history_on_application_with_configured_errors_map')
    prev = None
    verbs_of_path, head_paths, biggest = {}, set(), 0
    for i, ((kind, n), ref, tref) in enumerate(zip(hist, refs, trefs)):
        env = S.make_env(kind, n)
        # (what this request has in common with earlier ones of the history: counted, not judged)
        verb, path, size = env['REQUEST_METHOD'], env['PATH_INFO'], len(env['wsgi.input'].getvalue())
        if verbs_of_path.setdefault(path, {verb}) != {verb}:
            ctx.count('path_asked_before_with_another_verb')
        verbs_of_path[path].add(verb)
        r = call_app(app, env)
        if r.status and r.status.startswith('405') and path in head_paths:
            ctx.count('refused_verb_after_HEAD_on_the_same_path')
        if verb == 'HEAD' and r.status and r.status.startswith('2'):
            head_paths.add(path)
        if _MEMFILE < size < biggest and r.status and r.status.startswith('2'):
            ctx.count('spilled_body_after_a_longer_spilled_body')
        if r.status and r.status.startswith('2'):
            biggest = max(biggest, size)
        del env
        if r.escaped is not None:
            raise CheckFailure(f'request {i} {kind, n} after {hist[:i]} raised {fmt_exc(r.escaped)}')
        got = triple(r)
        if got != ref:
            diff = _diff(got, ref)
            raise CheckFailure(f'response {i} of the history {hist[:i + 1]} differs from the response of the same request {kind, n} on a fresh application:\n{diff}')
        if got != tref:
            raise CheckFailure(f'response {i} of the history {hist[:i + 1]} differs from the response of the same request {kind, n} on a fresh application served on a fresh thread:\n{_diff(got, tref)}')
        if prev is not None:
            ctx.count('consecutive_pairs')
            if prev != kind:
                _PAIRS.add((prev, kind))
                if prev in LEAVES_STATE:
                    ctx.nontrivial(repr(hist[:i + 1]))
        prev = kind
    ctx.sample(hist[:8])


_PAIRS = set()
_MEMFILE = 160          # max_memfile_size of the site (vlib/site.py make_app)


def _diff(got, ref):
    out = []
    if got[0] != ref[0]:
        out.append(f'  status {got[0]!r} vs fresh {ref[0]!r}')
    gh, rh = got[1], ref[1]
    for h in gh:
        if h not in rh:
            out.append(f'  header only in history response: {h!r}')
    for h in rh:
        if h not in gh:
            out.append(f'  header only in fresh response:   {h!r}')
    if got[2] != ref[2]:
        out.append(f'  body {got[2][:300]!r}\n  vs fresh {ref[2][:300]!r}')
    return '\n'.join(out)


# ------------------------------------------------------------------ retention
def census(ctx, kinds, n1, n2, label):
    app = S.make_app(private_errors=True)
    refs = []

    def one(i):
        kind = kinds[i % len(kinds)]
        env = S.make_env(kind, i)
        refs.append(weakref.ref(env))
        refs.append(weakref.ref(env['wsgi.input']))
        call_app(app, env)
        del env

    for i in range(20):          # warm-up (caches, lazily built tables)
        one(i)
    i = 20
    while i < n1:
        one(i)
        i += 1
    gc.collect()
    alive1 = sum(1 for r in refs if r() is not None)
    objs1 = len(gc.get_objects())
    nrefs1 = len(refs)
    while i < n2:
        one(i)
        i += 1
    gc.collect()
    alive2 = sum(1 for r in refs if r() is not None)
    objs2 = len(gc.get_objects())
    growth = objs2 - objs1 - (len(refs) - nrefs1)       # the census' own weakref objects are not counted
    # third window: memory blocks of any kind (strings, registry entries, cache slots are invisible to the gc census)
    del refs[:]
    gc.collect()
    blocks2 = sys.getallocatedblocks()
    n3 = n2 + (n2 - n1)
    while i < n3:
        call_app(app, S.make_env(kinds[i % len(kinds)], i))
        i += 1
    gc.collect()
    block_growth = sys.getallocatedblocks() - blocks2
    ctx.evals += 1
    ctx.count('retention_runs')
    ctx.nontrivial(f'retention:{label}:{n2}')
    case = {'retention': label, 'kinds': kinds, 'n1': n1, 'n2': n2}
    # constant bound: the last request of the thread plus the last failing request held by each of the three shared error
    # objects of errors_map (their traceback is dropped at the next raise): 2 objects each, plus slack
    if alive2 > 10 or alive2 > alive1 + 2:
        raise CheckFailure(f'after {n2} requests of {label} {alive2} per-request objects (environ / input stream) are still alive ({alive1} after {n1}): not constant')
    if growth > 40 + (n2 - n1) // 10:          # (bounded caches keyed by request text keep filling slowly over long windows: a real leak is at least one object per request)
        raise CheckFailure(f'gc-tracked objects grew by {growth} between request {n1} and request {n2} of {label} ({objs1} -> {objs2}): per-request state is being retained')
    if block_growth > (n3 - n2):
        raise CheckFailure(f'allocated memory blocks grew by {block_growth} over requests {n2}..{n3} of {label} (more than one block per request, long after every bounded cache '
                           f'has filled): per-request state is being retained')
    ctx.strata['max_block_growth_per_%d_requests' % (n3 - n2)] = max(ctx.strata.get('max_block_growth_per_%d_requests' % (n3 - n2), 0), block_growth)
    ctx.strata['max_alive_per_request_objects'] = max(ctx.strata.get('max_alive_per_request_objects', 0), alive2)
    ctx.strata['max_gc_object_growth'] = max(ctx.strata.get('max_gc_object_growth', 0), growth)
    return case


def check_retention(ctx, case):
    census(ctx, case['kinds'], case['n1'], case['n2'], case['retention'])


ERR_BODY_KINDS = ('badchunk', 'oversized', 'badmultipart', 'badjson', 'bigform', 'prepared_error', 'neg_cl')          # kinds answered through a mapped / prepared error object


HIST = st.tuples(st.lists(st.tuples(st.sampled_from(S.KINDS_SEQ), st.integers(0, 40)), min_size=2, max_size=30), st.sampled_from([None, None, 'custom'])).map(
    lambda t: {'history': [list(x) for x in t[0]], 'cfg': t[1]})


def run(ctx):
    for name, case in load_corpus(ID):
        ctx.guarded(check_retention if 'retention' in case else check_history, case)
        ctx.count('corpus')
    # exhaustive: every ordered pair of kinds (and x-error-y triples in thorough)
    pairs = list(itertools.product(S.KINDS_SEQ, repeat=2))
    from vlib import fresh
    got = fresh.references([(k, n, 'default', False) for k in S.KINDS_SEQ for n in (1, 2, 3, 4, 5, 6, 7)])
    for (k, n, _, _), v in got.items():
        if v[0] == 'escaped':
            raise CheckFailure(f'reference request {k, n} raised {v[1]}')
        _FRESH[(k, n)] = v
    ctx.count('references_from_fresh_processes', len(got))
    for a, b in pairs[ctx.shard::max(1, ctx.nshards)]:
        ctx.guarded(check_history, {'history': [[a, 1], [b, 2]]})
        ctx.guarded(check_history, {'history': [[a, 3], [b, 3], [a, 4]]})
        if a in ERR_BODY_KINDS or b in ERR_BODY_KINDS:
            ctx.guarded(check_history, {'history': [[a, 3], [b, 3], [a, 4], [b, 5], [a, 5]], 'cfg': 'custom'})
    ctx.count('exhaustive_ordered_pairs', len(pairs))
    # walks: one kind whose requests differ in verb / route / body size with n, n running up and down (every value before and after every other),
    # alone and with requests of other kinds (in-memory bodies, forms, other verbs on the same routes) in between
    if ctx.shard == 0:
        for kind, between in (('verb_on_get_route', ['ok', 'gen', 'header_case', 'wrongverb', 'head_ok']), ('verb_on_any_route', ['wrongverb', 'ok']),
                              ('spilled_body', ['chunked_ok', 'emptybody', 'form', 'oversized', 'upload_headers', 'badchunk'])):
            up = [[kind, n] for n in range(0, 22)]
            down = up[::-1]
            ctx.guarded(check_history, {'history': up + down})
            ctx.guarded(check_history, {'history': down + up, 'cfg': 'custom'})
            mixed = []
            for j, step in enumerate(down + up):
                mixed += [step, [between[j % len(between)], j % 41]]
            ctx.guarded(check_history, {'history': mixed})
            # n stepping by 3 and by 7 modulo 22: sizes / verbs in neither rising nor falling order
            ctx.guarded(check_history, {'history': [[kind, (3 * j) % 22] for j in range(22)] + [[kind, (7 * j) % 22] for j in range(22)]})
            ctx.count('walks_up_and_down_over_one_kind', 4)
    if ctx.tier == 'thorough':
        trip = [(a, e, b) for a in S.KINDS for e in ERROR_KINDS for b in S.KINDS]
        for a, e, b in trip[ctx.shard::max(1, ctx.nshards)]:
            ctx.guarded(check_history, {'history': [[a, 5], [e, 6], [b, 7]]})
    n = 1200 if ctx.tier == 'quick' else 12000
    ctx.hyp(HIST, check_history, n)
    ctx.strata['distinct_ordered_kind_pairs'] = len(_PAIRS)
    # retention
    if ctx.shard == 0:
        n1, n2 = (160, 400) if ctx.tier == 'quick' else (300, 2000)
        for kind in S.KINDS_SEQ:
            ctx.guarded(check_retention, {'retention': kind, 'kinds': [kind], 'n1': n1, 'n2': n2})
        # (mixed traffic fills the bounded caches of the standard library more slowly: the first measuring point lies later)
        ctx.guarded(check_retention, {'retention': 'mixed', 'kinds': list(S.KINDS), 'n1': max(n1, 20 * len(S.KINDS)), 'n2': max(n1, 20 * len(S.KINDS)) + (n2 - n1)})


def replay(ctx, case):
    (check_retention if 'retention' in case else check_history)(ctx, case)
