"""C08  Concurrent requests on one application never see each other."""
import os
import threading

from hypothesis import strategies as st

from vlib import site as S
from vlib.core import CheckFailure, load_corpus, fmt_exc, REPO
from vlib.sched import Scheduler, BIG
from vlib.wsgi import call_app

ID = 'C08'
LEVEL = 'exploration'
QUICK_SHARDS = 8
RULE = ('case = 2-3 requests (kinds of vlib/site.py: cookie+header+status from request data, JSON / HTML error pages for 404, 405, invalid JSON, malformed chunked '
        'body, oversized body, handler crash, raised response with cookie, multipart form echo, generator body, cookie-then-abort, a non-standard status code as text with an own reason phrase (set / raised) against the same code as a number (set / aborted), str pieces streamed in a charset with a stateful encoder (utf-16, utf-32, utf-8-sig) with the pulls of the two bodies interleaved; debug off or on) served on ONE '
        'fresh application, each on its own thread under a deterministic scheduler (vlib/sched.py: every line event inside the ombott package and the handler '
        'module is a yield point; exactly one thread holds the baton; a schedule is a list of [thread, steps]). Schedules: for a fixed set of ordered scenario pairs '
        'EVERY single-preemption schedule (run A for k steps, run B to completion, finish A; all k) exhaustively, after a warm-up of 8-33 sequential requests of one kind the other thread pre-empted at every step while that kind is served once more, for five same-kind pairs also the two-preemption schedules (A k steps, B m steps, A to the end, B to the end) on a stride, plus Hypothesis-generated schedules of 2-40 '
        'segments over 2-3 threads (opcode granularity for a fraction in thorough). Oracle: the complete response of each thread (status line, header multiset, '
        'body) == the response of the same request served alone on a fresh application (for the status-line and header-type kinds: in a fresh interpreter); in-handler probes (request.environ identity, path, query string, cookie, '
        'response header / cookie written earlier in the same handler) always show the own request of the thread. Non-trivial = at least one switch away from a thread '
        'that is between entering the application and start_response; distinct by (requests, debug, schedule).')
ASSUMPTIONS = ['interleavings are explored at Python line (thorough: partly opcode) granularity under the GIL; C-level atomicity is assumed',
               'reference responses come from applications created before the application under test',
               'the application under test has its own error objects (shared by all its threads) so that a case is a pure function of its data']

_REPO_PKG = os.path.join(os.path.realpath(REPO), 'ombott') + os.sep
_SITE = os.path.realpath(S.__file__)


def relevant(fn):
    if fn.startswith('<'):
        return False
    fn = os.path.realpath(fn)
    return fn.startswith(_REPO_PKG) or fn == _SITE


def _cfg(debug, custom):
    # custom: an errors_map the user configured (texts that need escaping, objects shared by every request of the application)
    return dict({'debug': debug}, **({'errors_map': S.custom_errors()} if custom else {}))


def solo(kind, n, debug, cache, custom=False):
    key = (kind, n, debug, custom)
    if key not in cache and kind in FRESH_KINDS and not custom:
        # kinds whose answer could be coloured by process-wide memos get their reference from a fresh interpreter
        from vlib import fresh
        got = fresh.references([(kind, n, 'default', bool(debug))])
        v = got[(kind, n, 'default', bool(debug))]
        if v[0] == 'escaped':
            raise CheckFailure(f'solo request {key} raised {v[1]}')
        cache[key] = tuple(v)
    if key not in cache:
        app = S.make_app(config=_cfg(debug, custom), private_errors=not custom)
        r = call_app(app, S.make_env(kind, n))
        if r.escaped is not None:
            raise CheckFailure(f'solo request {key} raised {fmt_exc(r.escaped)}')
        cache[key] = (r.status, sorted(r.headers or []), r.body)
    return cache[key]


_SOLO = {}


def run_case(ctx, case, count_only=False):
    reqs = [tuple(r) for r in case['reqs']]
    debug = bool(case.get('debug'))
    custom = bool(case.get('custom'))
    refs = [solo(k, n, debug, _SOLO, custom) for k, n in reqs]
    envs = {}
    problems = []
    inflight = {}
    stats = {'preempt_inflight': 0}

    def probe(app, where):
        me = threading.get_ident()
        env = envs.get(me)
        if env is None:
            return
        rq, rs = app.request, app.response
        if rq.environ is not env:
            problems.append(f'{where}: app.request.environ is not the environ of this thread (shows {rq.environ.get("PATH_INFO")!r}?{rq.environ.get("QUERY_STRING")!r}, '
                            f'own {env["PATH_INFO"]!r}?{env["QUERY_STRING"]!r})')
            return
        if rq.query_string != env['QUERY_STRING'] or rq.path != '/' + env['PATH_INFO'].lstrip('/'):
            problems.append(f'{where}: request.path / query_string {rq.path!r} {rq.query_string!r} differ from the own environ')
        if where == 'ok:end':
            q = rq.query.get('q', '')
            if rs.headers.get('X-Req') != q:
                problems.append(f'ok:end: response header X-Req reads {rs.headers.get("X-Req")!r}, this handler wrote {q!r}')
            ck = rs._cookies
            if ck is None or 'sid' not in ck or ck['sid'].value != 's' + q:
                problems.append(f'ok:end: response cookie sid reads {ck and ck.output()!r}, this handler wrote {"s" + q!r}')
            want = env.get('HTTP_COOKIE', '')
            if want and rq.get_cookie('seen') != want.split('=', 1)[1]:
                problems.append(f'ok:end: request cookie seen={rq.get_cookie("seen")!r}, own Cookie header {want!r}')

    app = S.make_app(probe=probe, config=_cfg(debug, custom), private_errors=not custom)
    for wk, wn in case.get('warm') or ():
        call_app(app, S.make_env(wk, wn))

    def make_fn(i, kind, n):
        def fn():
            me = threading.get_ident()
            env = S.make_env(kind, n)
            envs[me] = env
            inflight[i] = True
            real_sr = []

            def wrapped_app(environ, start_response):
                def sr(*a, **kw):
                    inflight[i] = False
                    return start_response(*a, **kw)
                return app(environ, sr)
            r = call_app(wrapped_app, env)
            inflight[i] = False
            return r
        return fn

    def on_switch(a, b):
        if a is not None and inflight.get(a) and a != b:
            stats['preempt_inflight'] += 1

    fns = [make_fn(i, k, n) for i, (k, n) in enumerate(reqs)]
    sched = Scheduler(fns, case['schedule'], relevant, opcodes=bool(case.get('opcodes')), on_switch=on_switch)
    results = sched.run()
    if count_only:
        return sched.yields
    for i, (req, ref) in enumerate(zip(reqs, refs)):
        if sched.errors[i] is not None:
            raise CheckFailure(f'thread {i} {req} raised {fmt_exc(sched.errors[i])} under schedule {case["schedule"]}')
        r = results[i]
        if r.escaped is not None:
            raise CheckFailure(f'thread {i} {req}: exception escaped {fmt_exc(r.escaped)} under schedule {case["schedule"]} with {reqs}')
        got = (r.status, sorted(r.headers or []), r.body)
        if got != ref:
            raise CheckFailure(f'thread {i} {req} (served with {reqs}, debug={debug}, schedule {case["schedule"]}) got a response that differs from the one the same request '
                               f'produces alone:\n  got  {got[0]!r} {got[1]!r} {got[2][:300]!r}\n  solo {ref[0]!r} {ref[1]!r} {ref[2][:300]!r}')
    if problems:
        raise CheckFailure(f'requests {reqs} debug={debug} schedule {case["schedule"]}: ' + '; '.join(problems[:3]))
    ctx.count('runs')
    ctx.count('switches', sched.switches)
    if stats['preempt_inflight']:
        ctx.count('runs_with_preemption_of_inflight_request')
        ctx.nontrivial(case, sample=case)
    if debug:
        ctx.count('debug_on')
    if len(reqs) == 3:
        ctx.count('three_threads')
    return sched.yields


PAIRS = [('ok', 'ok'), ('ok', 'crash'), ('badjson', 'badjson'), ('form', 'ok'), ('notfound', 'notfound_json'), ('gen', 'raised'), ('badchunk', 'oversized'),
         ('cookie_then_abort', 'ok'), ('wrongverb', 'ok_json_accept'), ('crash', 'notfound'), ('oversized', 'oversized'), ('form', 'form'),
         ('rex', 'rex'), ('expires', 'expires'), ('typed', 'typed'), ('signed', 'signed'), ('status_str', 'status_int'), ('urlinfo', 'auth'), ('longpath', 'ok'),
         ('raised', 'raised'), ('gen', 'gen'), ('head_ok', 'ok'), ('badjson', 'badmultipart'), ('badmultipart', 'badjson'), ('oversized', 'bigform'), ('bigform', 'oversized'),
         ('badchunk', 'badchunk'), ('notfound_json', 'crash'), ('chunked_ok', 'chunked_ok'), ('header_case', 'ok'), ('header_case', 'header_case'), ('notmodified', 'ok'),
         ('nocontent', 'ok'), ('inject_arg', 'ok'), ('ok', 'notmodified'), ('chunked_ok', 'badchunk'), ('form_fixed', 'form_fixed'), ('ok', 'resp_copy'),
         ('expires', 'resp_copy'), ('sess_mutate', 'sess_mutate'), ('form_fixed', 'form'), ('qs_reassign', 'qs_reassign'), ('urlinfo', 'ok'), ('ok', 'urlinfo'), ('api_404', 'notfound'),
         ('notfound', 'api_404'), ('api_item', 'urlinfo'), ('neg_cl', 'ok'), ('urlbuild', 'urlbuild'), ('urlbuild', 'typed'), ('ok', 'manyheaders'), ('manyheaders', 'ok'), ('auth', 'manyheaders'),
         ('manyheaders', 'manyheaders'), ('emptyform', 'emptybody'), ('emptybody', 'emptyform'), ('emptyform', 'emptyform'), ('emptyform', 'ok'), ('upload_headers', 'upload_headers'),
         ('upload_headers', 'form'), ('hdr_types', 'hdr_types'), ('hdr_types', 'ok'), ('notmod_noetag', 'notmodified'), ('badstart', 'badstart'), ('badstart', 'form'),
         # a code without a standard phrase: as text with the request's own phrase on one thread (set / raised), the same code as a number on the other (set / aborted)
         ('reason_text', 'reason_int'), ('reason_raise_text', 'reason_abort_int'), ('reason_text', 'reason_abort_int'), ('reason_raise_text', 'reason_int'),
         # str pieces streamed in a charset whose encoder keeps state between pieces; the server's pulls of the two bodies interleave
         ('bom16_gen', 'bom16_gen'), ('bom32_gen', 'bom32_gen'), ('bomsig_gen', 'bomsig_gen'), ('bom16_gen', 'gen')]
TEXT_STATUS = ('status_str', 'reason_text', 'reason_raise_text')
INT_STATUS = ('status_int', 'reason_int', 'reason_abort_int')
ALL_KINDS = S.KINDS + S.KINDS_THREADS

def _reqs():
    anyk = st.lists(st.tuples(st.sampled_from(ALL_KINDS), st.integers(0, 30)).map(list), min_size=2, max_size=3)
    # half of the cases: all threads serve the same kind of request with different data (they meet in the same code)
    same = st.tuples(st.sampled_from(ALL_KINDS), st.lists(st.integers(0, 30), min_size=2, max_size=3, unique=True)).map(lambda t: [[t[0], n] for n in t[1]])
    return st.one_of(anyk, same)


# (a status line / header value may be coloured by what the process saw before: the reference must not come from this process)
FRESH_KINDS = ('hdr_types',) + TEXT_STATUS + INT_STATUS
PAIRS_CUSTOM = [('badjson', 'badjson'), ('badmultipart', 'badjson'), ('oversized', 'oversized'), ('badchunk', 'badjson'), ('badjson', 'badchunk'), ('bigform', 'oversized')]
WARM1 = [('ok', 'manyheaders'), ('auth', 'manyheaders'), ('urlinfo', 'manyheaders'), ('manyheaders', 'manyheaders'), ('longquery', 'manyheaders')]
PAIRS2 = [('form_fixed', 'form_fixed'), ('chunked_ok', 'chunked_ok'), ('rex', 'rex'), ('expires', 'expires'), ('qs_reassign', 'qs_reassign'), ('bom16_gen', 'bom16_gen')]
STRIDE2_FACTOR = {('bom16_gen', 'bom16_gen'): 3}          # (long streamed bodies: a coarser grid keeps the two-preemption schedules affordable)
# scenario pairs served after a warm-up of w sequential requests of the first kind (what earlier traffic taught the application must not matter)
_WK = ['crash', 'raised', 'gen', 'cookie_then_abort']          # handlers registered one after the other (neighbours in whatever the router keeps per node)
WARM = [(a, b) for a in _WK for b in _WK if a != b] + [('gen', 'ok'), ('ok', 'gen')]

CASE = st.fixed_dictionaries({
    'reqs': _reqs(),
    'debug': st.sampled_from([False, False, True]),
    'schedule': st.lists(st.tuples(st.integers(0, 2), st.one_of(st.integers(1, 12), st.integers(1, 80), st.integers(50, 400))).map(list), min_size=2, max_size=40),
})


def check_case(ctx, case):
    run_case(ctx, case)


def run(ctx):
    for name, case in load_corpus(ID):
        ctx.guarded(check_case, case)
        ctx.count('corpus')
    # exhaustive single-preemption schedules for the scenario pairs of this shard
    npairs = len(PAIRS)
    stride = 1
    for pi, (a, b) in enumerate(PAIRS[:npairs]):
        if pi % max(1, ctx.nshards) != ctx.shard % max(1, ctx.nshards):
            continue
        for debug in ((False, True) if (a in ('notfound', 'crash', 'badjson') or ctx.tier == 'thorough') else (False,)):
            base = {'reqs': [[a, 1], [b, 2]], 'debug': debug}
            ya = run_case(ctx, dict(base, schedule=[[0, BIG]]), count_only=True)[0]
            for k in range(0, ya + 1, stride):
                ctx.guarded(check_case, dict(base, schedule=[[0, k], [1, BIG], [0, BIG]]))
            ctx.count('bound1_scenarios')
            if a in TEXT_STATUS and b in INT_STATUS:
                ctx.count('text_status_vs_same_code_as_int_scenarios')
            if a.startswith('bom') or b.startswith('bom'):
                ctx.count('stateful_charset_stream_scenarios')
            ctx.count('bound1_schedules', ya // stride + 1)
    # error kinds on an application with a configured errors_map (HTML page on one thread, JSON document on the other, and the reverse)
    for pi, (a, b) in enumerate(PAIRS_CUSTOM):
        if pi % max(1, ctx.nshards) != ctx.shard % max(1, ctx.nshards):
            continue
        base = {'reqs': [[a, 2], [b, 1]], 'debug': False, 'custom': True}
        ya = run_case(ctx, dict(base, schedule=[[0, BIG]]), count_only=True)[0]
        for k in range(0, ya + 1):
            ctx.guarded(check_case, dict(base, schedule=[[0, k], [1, BIG], [0, BIG]]))
        ctx.count('configured_errors_map_scenarios')
    # the same after a warm-up: w sequential requests of kind a, then b is pre-empted at every step while a runs to completion (and the reverse)
    for pi, (a, b) in enumerate(WARM):
        if pi % max(1, ctx.nshards) != ctx.shard % max(1, ctx.nshards):
            continue
        for w in ((9, 17) if ctx.tier == 'quick' else (1, 7, 8, 9, 10, 16, 17, 24, 33)):
            base = {'reqs': [[a, 1], [b, 2]], 'debug': False, 'warm': [[a, 3]] * w}
            yb = run_case(ctx, dict(base, schedule=[[1, BIG]]), count_only=True)[1]
            for k in range(0, yb + 1):
                ctx.guarded(check_case, dict(base, schedule=[[1, k], [0, BIG], [1, BIG]]))
            ctx.count('warmed_up_scenarios')
            ctx.count('warmed_up_schedules', yb + 1)
    # after ONE earlier request of kind a (what it left in process-wide memos is warm): a pre-empted at every step while b, which floods such memos, runs to completion
    for pi, (a, b) in enumerate(WARM1):
        if pi % max(1, ctx.nshards) != ctx.shard % max(1, ctx.nshards):
            continue
        base = {'reqs': [[a, 1], [b, 2]], 'debug': False, 'warm': [[a, 3]]}
        ya = run_case(ctx, dict(base, schedule=[[0, BIG]]), count_only=True)[0]
        for k in range(0, ya + 1):
            ctx.guarded(check_case, dict(base, schedule=[[0, k], [1, BIG], [0, BIG]]))
        ctx.count('warm1_scenarios')
        ctx.count('warm1_schedules', ya + 1)
    # two-preemption schedules (A runs k steps, B runs m steps, A finishes, B finishes) for pairs that meet in shared code, on a stride
    stride2 = 9 if ctx.tier == 'quick' else 3
    for pi, (a, b) in enumerate(PAIRS2):
        if pi % max(1, ctx.nshards) != ctx.shard % max(1, ctx.nshards):
            continue
        base = {'reqs': [[a, 1], [b, 2]], 'debug': False}
        ya = run_case(ctx, dict(base, schedule=[[0, BIG]]), count_only=True)[0]
        yb = run_case(ctx, dict(base, schedule=[[1, BIG]]), count_only=True)[1]
        sp = stride2 * STRIDE2_FACTOR.get((a, b), 1)
        for k in range(1, ya, sp):
            for m in range(1, yb, sp):
                ctx.guarded(check_case, dict(base, schedule=[[0, k], [1, m], [0, BIG], [1, BIG]]))
        ctx.count('bound2_scenarios')
        ctx.count('bound2_schedules', len(range(1, ya, sp)) * len(range(1, yb, sp)))
        if a.startswith('bom'):
            ctx.count('stateful_charset_stream_two_preemption_scenarios')
    n = 250 if ctx.tier == 'quick' else 4000
    ctx.hyp(CASE, check_case, n, shrink=(ctx.tier == 'thorough'))
    if ctx.tier == 'thorough':
        ctx.hyp(CASE.map(lambda c: dict(c, opcodes=True)), check_case, 300, label='opcodes', shrink=False)


def replay(ctx, case):
    check_case(ctx, case)
