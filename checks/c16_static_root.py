"""C16  static_file never serves a file outside its root."""
import mimetypes
import os
import shutil
import tempfile

from hypothesis import strategies as st

from vlib.core import CheckFailure, load_corpus, fmt_exc
from vlib.static import serve_static, record_opens

ID = 'C16'
LEVEL = 'exploration'
RULE = ('a real tree is built per run: base/{top.txt, root/{f.txt, .hidden, "we ird.txt", "a\\\\b.txt", sub/{g.txt, deep/h.txt}}, root2/decoy.txt, '
        'rootx/secret.txt, root_backup/secret.txt, other/secret.txt, decoy FILES beside / above each root whose name is a proper string prefix of the name of the root directory or of one of its ancestors (roo, r, root/su beside root/sub, ~/stat beside ~/static, $HOM, srv:8080/pu, srv:80, site beside site2), case-variant twins Root/ and ROOT/, a second site site2/ with the same relative layout, a mirror tree backup/<absolute path of the root>/ beside the root and one inside it}. case = (root spelling: absolute, with trailing separator(s), relative to the '
        'working directory (which alternates between base and base/site2 from request to request), with a dot-dot detour, the nested root root/sub, the working directory itself spelled as the empty string, dot or dot-slash, and directories literally called ~, ~/static, $HOME, ~user in the working directory while HOME points at a decoy tree; file name = prefix in {"", "/", "\\\\", "//", absolute base, absolute '
        'root, "/etc/"} + 1-6 segments from {file and directory names of the tree, ".", "..", "", "...", sibling directory names, "passwd", NUL '
        'segment} joined by separators from {"/", "\\\\", "//", "/./", "\\\\\\\\"} + optional trailing separator), served by static_file from a handler '
        'of the default application. Oracle: independent string normalisation of the location (POSIX reading and backslash-as-separator reading); '
        'status 200 => the body equals the content of the file at a normalised location inside the root; any other outcome is 403 or 404; and the '
        'audit-hook log of every open() during the request contains no path of the tree (or /etc/passwd) outside the root. Plus sequences of requests on one root (one or two spellings of it) over a small tree of its own that changes between the requests the way a deployment changes it (root directory moved aside to root.old and a fresh one created under its name, new one built beside and swapped in by two renames, removed and re-created, previous one moved back, the same for a directory below the root, files replaced by rename): every request is judged against the tree as it is at that moment, nothing of root.old may be served. Plus two concurrent static_file calls (one legitimate, one leaving the root) under every single-preemption schedule. Non-trivial = the name '
        'has a dot-dot segment, a backslash, an absolute prefix or a sibling-directory segment; distinct by (root spelling, name).')
ASSUMPTIONS = ['POSIX file system, no symbolic links in the tree', 'observation of file opens is the interpreter audit event "open" (covers open, io.open, os.open)',
               'the property is one-directional (what may be served); how many names were served is reported as a stratum, not required']

FILES = {
    'top.txt': b'TOP-DECOY', 'root/f.txt': b'root f', 'root/.hidden': b'hidden', 'root/we ird.txt': b'weird', 'root/a\\b.txt': b'backslash name',
    'root/sub/g.txt': b'sub g', 'root/sub/deep/h.txt': b'deep h', 'root2/decoy.txt': b'ROOT2-DECOY', 'rootx/secret.txt': b'ROOTX-DECOY',
    'root_backup/secret.txt': b'BACKUP-DECOY', 'other/secret.txt': b'OTHER-DECOY', 'root2/f.txt': b'ROOT2-F-DECOY', 'secret.txt': b'BASE-SECRET-DECOY',
    'Root/f.txt': b'CASE-VARIANT-DECOY 1', 'ROOT/secret.txt': b'CASE-VARIANT-DECOY 2', 'root/SUB/g.txt': b'inside, other case', 'root/sub/Deep/h.txt': b'inside, other case 2',
    # a second site with the same relative layout: the working directory alternates between the two
    # directories whose names are spelled like shell expansions; the HOME of the process points at a decoy directory during the check
    '~/f.txt': b'tilde f', '~/sub/g.txt': b'tilde g', '$HOME/f.txt': b'dollar f', '~nobody-verif/f.txt': b'tilde user f',
    'home/f.txt': b'HOME-DECOY f', 'home/sub/g.txt': b'HOME-DECOY g', 'home/secret.txt': b'HOME-DECOY secret', 'home/static/f.txt': b'HOME-DECOY static',
    '~/static/f.txt': b'tilde static f',
    # entries beside the root whose names are the root's name plus a backslash / a blank / a dot
    'root\\secret.txt': b'BACKSLASH-SIBLING-DECOY', 'root\\sub\\g.txt': b'BACKSLASH-SIBLING-DECOY 2', 'root /secret.txt': b'BLANK-SIBLING-DECOY', 'root./secret.txt': b'DOT-SIBLING-DECOY',
    # a directory whose name holds the path-list separator (host:port style), with same-named decoys in the directory before the colon
    'srv:8080/pub/f.txt': b'colon f', 'srv:8080/pub/sub/g.txt': b'colon g', 'srv/f.txt': b'SRV-DECOY f', 'srv/sub/g.txt': b'SRV-DECOY g', '8080/pub/f.txt': b'PORT-DECOY f',
    # FILES beside / above a root whose name is a proper string prefix of the root directory's (or of one of its ancestors') name:
    # the mirror image of the siblings that extend the root's name
    'roo': b'ROOT-NAME-PREFIX-DECOY roo', 'r': b'ROOT-NAME-PREFIX-DECOY r', 'root/su': b'inside root, beside root/sub: su', 'root/s': b'inside root, beside root/sub: s',
    '~/stat': b'inside ~, beside ~/static: stat', '~/s': b'inside ~, beside ~/static: s', '$HOM': b'DOLLAR-PREFIX-DECOY', '$': b'DOLLAR-PREFIX-DECOY 2', '~nobody': b'TILDE-USER-PREFIX-DECOY',
    'srv:8080/pu': b'COLON-PREFIX-DECOY pu', 'srv:8080/p': b'COLON-PREFIX-DECOY p', 'srv:80': b'COLON-PREFIX-DECOY above', 'sr': b'COLON-PREFIX-DECOY above 2',
    'site': b'SITE-PREFIX-DECOY', 'site2/roo': b'SITE2-ROOT-NAME-PREFIX-DECOY', 'site2/root/su': b'site2 inside root, beside root/sub',
    'site2/root/f.txt': b'site2 f', 'site2/root/sub/g.txt': b'site2 g', 'site2/top.txt': b'SITE2-TOP-DECOY', 'site2/root2/decoy.txt': b'SITE2-ROOT2-DECOY',
}
SEGS = ['Root', 'ROOT', 'SUB', 'Deep', 'F.TXT', 'f.txt', 'sub', 'g.txt', 'deep', 'h.txt', '.hidden', 'we ird.txt', 'a\\b.txt', '.', '..', '..', '..', '', '...', 'root', 'root2', 'rootx', 'root_backup',
        'other', 'decoy.txt', 'secret.txt', 'top.txt', 'passwd', 'etc', 'a', 'b.txt', '\0', 'nofile',
        # dot-dot with a control character inside / beside it (a name filter that drops such characters would turn these into '..')
        '.\0.', '..\n', '\r..', '.\r.', '..\0', '.\n.', '\0..', '. .', '.\t.', '..;', '%2e%2e', '.%00.',
        # names that are a proper string prefix of a root directory's name (files of that name exist beside / above the roots)
        'roo', 'roo', 'r', 'su', 's', 'stat', '$HOM', '$', '~nobody', 'pu', 'p', 'srv:80', 'sr', 'site', 'ro']
SEPS = ['/', '/', '/', '\\', '\\', '//', '/./', '\\\\', '/\\', '\\/']
ROOTS = ['abs', 'abs/', 'abs//', 'rel', './rel', 'rel/', 'detour', 'nested', 'nested/', 'abs/.', 'rel\\', '~', '~/', './~', '~/static', '$HOME', '~nobody-verif', 'empty', 'dot', 'dot/', 'colon', 'colon_rel', 'colon/']
PREFIXES = ['', '', '', '/', '\\', '//', '../', '..\\', '<base>/', '<root>/', '/etc/', './', '<base>', '/../', '../backup<root>/', '../../backup<root>/', 'mirror<root>/', '../backup<base>/']

_STATE = {}


def tree():
    if 'base' not in _STATE:
        base = os.path.realpath(tempfile.mkdtemp(prefix='verif-c16-'))
        for rel, data in FILES.items():
            p = os.path.join(base, rel)
            os.makedirs(os.path.dirname(p), exist_ok=True)
            with open(p, 'wb') as f:
                f.write(data)
        # a backup / mirror tree that re-creates the absolute path of the root below another directory
        for mirror in ('backup', 'root/mirror'):
            p = base + '/' + mirror + base + '/root/secret.txt'
            os.makedirs(os.path.dirname(p), exist_ok=True)
            with open(p, 'wb') as f:
                f.write(b'MIRROR-DECOY' if mirror == 'backup' else b'mirror inside the root')
            with open(base + '/' + mirror + base + '/root/f.txt', 'wb') as f:
                f.write(b'MIRROR-F-DECOY' if mirror == 'backup' else b'mirror f inside the root')
        _STATE['base'] = base
        _STATE['cwd'] = os.getcwd()
        _STATE['home'] = os.environ.get('HOME')
        os.environ['HOME'] = base + '/home'
        os.chdir(base)
        mimetypes.init()           # reads /etc/mime.types etc. once, outside the observed window
    return _STATE['base']


def cleanup():
    if 'base' in _STATE:
        os.chdir(_STATE['cwd'])
        if _STATE.get('home') is not None:
            os.environ['HOME'] = _STATE['home']
        shutil.rmtree(_STATE.pop('base'), ignore_errors=True)


def root_of(spec, base, cwd=None):
    """(root argument given to static_file, true absolute root directory); relative spellings are relative to the working directory"""
    R = base + '/root'
    if spec in ('colon', 'colon_rel', 'colon/'):
        here = cwd or base
        return {'colon': (here + '/srv:8080/pub', here + '/srv:8080/pub'), 'colon_rel': ('srv:8080/pub', here + '/srv:8080/pub'), 'colon/': (here + '/srv:8080/pub/', here + '/srv:8080/pub')}[spec]
    if spec in ('empty', 'dot', 'dot/'):
        # the working directory itself as root, spelled '' (what os.path.dirname('app.py') gives), '.' or './'
        return {'empty': '', 'dot': '.', 'dot/': './'}[spec], (cwd or base)
    if spec in ('~', '~/', './~', '~/static', '$HOME', '~nobody-verif'):
        here = cwd or base           # relative spellings: a directory literally called '~' (...) in the working directory
        return {'~': ('~', here + '/~'), '~/': ('~/', here + '/~'), './~': ('./~', here + '/~'), '~/static': ('~/static', here + '/~/static'), '$HOME': ('$HOME', here + '/$HOME'),
                '~nobody-verif': ('~nobody-verif', here + '/~nobody-verif')}[spec]
    if cwd and spec in ('rel', './rel', 'rel/', 'nested/'):
        R2 = cwd + '/root'
        return {'rel': ('root', R2), './rel': ('./root', R2), 'rel/': ('root/', R2), 'nested/': ('root/sub/', R2 + '/sub')}[spec]
    return {
        'abs': (R, R), 'abs/': (R + '/', R), 'abs//': (R + '//', R), 'rel': ('root', R), './rel': ('./root', R), 'rel/': ('root/', R),
        'detour': (base + '/root2/../root', R), 'nested': (R + '/sub', R + '/sub'), 'nested/': ('root/sub/', R + '/sub'), 'abs/.': (R + '/.', R),
        'rel\\': ('root\\', base + '/root\\'),
    }[spec]


def norm(root_abs, name, backslash_sep):
    """Independent normalisation: the location `name` denotes below root_abs (a list of components), '..' may climb out."""
    n = name.strip('/\\')
    if backslash_sep:
        n = n.replace('\\', '/')
    comps = [c for c in root_abs.split('/') if c]
    for seg in n.split('/'):
        if seg in ('', '.'):
            continue
        if seg == '..':
            if comps:
                comps.pop()
            continue
        comps.append(seg)
    return '/' + '/'.join(comps)


def inside(path, root_abs):
    return path.startswith(root_abs + '/')


@st.composite
def case_st(draw):
    segs = draw(st.lists(st.sampled_from(SEGS), min_size=1, max_size=6))
    seps = draw(st.lists(st.sampled_from(SEPS), min_size=len(segs), max_size=len(segs)))
    name = draw(st.sampled_from(PREFIXES))
    for s, sep in zip(segs, seps):
        name += s + sep
    if not draw(st.booleans()):
        name = name[:-len(seps[-1])]
    return {'root': draw(st.sampled_from(ROOTS)), 'name': name, 'cwd': draw(st.sampled_from(['', '', 'site2']))}


def check_case(ctx, case):
    base = tree()
    if case.get('sub'):
        base = base + '/' + case['sub']             # the small tree of check_sequence, which is rebuilt / changed between requests
    cwd = base + ('/' + case['cwd'] if case.get('cwd') else '')
    os.chdir(cwd)                                   # the working directory changes between requests
    root_arg, R = root_of(case['root'], base, cwd)
    name = case['name'].replace('<base>', base).replace('<root>', R)
    with record_opens() as opens:
        r = serve_static(name, root_arg)
        opened = list(opens)
    if case.get('cwd'):
        ctx.count('served_from_other_working_directory')
    if r.escaped is not None:
        raise CheckFailure(f'static_file({name!r}, root={root_arg!r}) raised: {fmt_exc(r.escaped)}')
    if r.code == 500:
        raise CheckFailure(f'static_file({name!r}, root={root_arg!r}) -> 500: {r.errors[-800:]}')
    L1, L2 = norm(R, name, False), norm(R, name, True)
    # every file of the tree (or the classic target) that was opened must be inside the root
    for p in opened:
        if isinstance(p, bytes):
            p = os.fsdecode(p)
        if not isinstance(p, str):
            continue
        try:
            rp = os.path.realpath(p)
        except (ValueError, OSError):
            continue
        if (rp.startswith(base + '/') or rp == '/etc/passwd') and not inside(rp, R) and os.path.isfile(rp):
            raise CheckFailure(f'static_file({name!r}, root={root_arg!r}) opened {rp!r}, which is outside the root {R!r} (status {r.status!r})')
    if r.code == 200:
        ok = False
        for L in (L1, L2):
            if inside(L, R) and os.path.isfile(L):
                with open(L, 'rb') as f:
                    if f.read() == r.body:
                        ok = True
        if not ok:
            raise CheckFailure(f'static_file({name!r}, root={root_arg!r}) answered 200 with body {r.body[:60]!r}; normalised location {L1!r} '
                               f'(backslash reading {L2!r}) is not a file inside the root {R!r}')
        ctx.count('served_200')
        if b'DECOY' in r.body and case['root'] not in ('empty', 'dot', 'dot/'):         # (with the working directory itself as root the decoys are legitimately inside it)
            raise CheckFailure(f'decoy content served for {name!r}')
    elif r.code in (403, 404):
        ctx.count(f'refused_{r.code}')
        if inside(L1, R) and os.path.isfile(L1) and '\0' not in L1:
            ctx.count('refused_although_inside_root')
    else:
        raise CheckFailure(f'static_file({name!r}, root={root_arg!r}) answered {r.status!r}; expected 200, 403 or 404')
    dd = '..' in name
    bs = '\\' in name
    ab = case['name'].startswith(('/', '<base>', '<root>', '\\'))
    sib = any(s in name for s in ('root2', 'rootx', 'root_backup', 'other', 'top.txt'))
    for flag, k in ((dd, 'dotdot'), (bs, 'backslash'), (ab, 'absolute_prefix'), (sib, 'sibling_or_decoy_segment'), (not inside(L1, R), 'location_outside_root'),
                    (not inside(L1, R) and os.path.isfile(L1), 'location_is_existing_outside_file'),
                    (not inside(L2, R) and L2 != L1 and os.path.isfile(L2), 'backslash_reading_is_existing_outside_file'),
                    (L1.startswith(R) and not inside(L1, R) and L1 != R, 'sibling_sharing_root_prefix'),
                    (R.startswith(L1) and L1 != R and not (R + '/').startswith(L1.rstrip('/') + '/'), 'location_is_string_prefix_of_root_path'),
                    (R.startswith(L1) and L1 != R and not (R + '/').startswith(L1.rstrip('/') + '/') and os.path.isfile(L1), 'existing_outside_file_named_like_a_prefix_of_the_root_name')):
        if flag:
            ctx.count(k)
    ctx.count('root_' + case['root'])
    if dd or bs or ab or sib:
        ctx.nontrivial(case['root'] + '|' + case['name'], sample=case)
    return r.code


SEQ_ROOTS = ['abs', 'abs/', 'abs//', 'rel', './rel', 'rel/', 'detour', 'nested', 'nested/', 'abs/.']
SEQ_OPS = ['deploy', 'deploy_swap', 'recreate', 'rollback', 'subdir', 'subdir_moved_out', 'rewrite']
SEQ_NAMES = ['f.txt', 'sub/g.txt', 'g.txt', 'only_<n>.txt', 'only_<n-1>.txt', 'sub/only_<n>.txt', '../root.old/f.txt', '../root.old/only_<n-1>.txt', '../../root.old/sub/g.txt', '../sub.old/g.txt',
             '../top.txt', 'sub/../f.txt', '../root/f.txt', '..\\root.old\\f.txt', '../sub_moved/g.txt', '../../sub_moved/g.txt']


def _write(path, data):
    os.makedirs(os.path.dirname(path), exist_ok=True)
    with open(path, 'wb') as f:
        f.write(data)


def _release(d, n):
    """contents of release n of the root directory, written to directory d (every release has other bytes under the same names, and one name of its own)"""
    _write(d + '/f.txt', b'release %d: f' % n)
    _write(d + '/sub/g.txt', b'release %d: g ' % n + b'x' * n)
    _write(d + '/sub/deep/h.txt', b'release %d: h' % n)
    _write(d + '/only_%d.txt' % n, b'only in release %d' % n)
    _write(d + '/sub/only_%d.txt' % n, b'sub, only in release %d' % n)


def check_sequence(ctx, case):
    """Requests on one root with changes of the tree in between, the way a deployment makes them: the root directory (or a directory below it) is moved aside and a
    fresh one takes over its name, is removed and re-created, the previous one is moved back, a file is replaced by rename. Every request is judged by check_case
    against the tree as it is at that moment: what is served are the bytes of the file at the normalised location inside the (current) root; the moved-away
    directory root.old is a sibling that extends the root's name and nothing of it may be served."""
    top = tree()
    sb = top + '/seq'
    os.chdir(top)
    shutil.rmtree(sb, ignore_errors=True)
    R = sb + '/root'
    n = 1
    _release(R, n)
    for rel, data in (('top.txt', b'SEQ-TOP-DECOY'), ('secret.txt', b'SEQ-SECRET-DECOY'), ('root2/decoy.txt', b'SEQ-ROOT2-DECOY'), ('root2/f.txt', b'SEQ-ROOT2-F-DECOY')):
        _write(sb + '/' + rel, data)
    changed = False
    try:
        for step in case['seq']:
            op = step[0]
            if op == 'get':
                name = step[2].replace('<n>', str(n)).replace('<n-1>', str(n - 1))
                code = check_case(ctx, {'root': step[1], 'name': name, 'cwd': '', 'sub': 'seq'})
                if changed:
                    ctx.count('request_after_the_tree_changed')
                    if code == 200:
                        ctx.count('served_200_after_the_root_directory_or_a_part_of_it_was_replaced')
                continue
            os.chdir(top)
            if op in ('deploy', 'deploy_swap'):
                n += 1
                shutil.rmtree(R + '.old', ignore_errors=True)
                if op == 'deploy':                  # move the live directory aside, then fill a fresh one
                    os.rename(R, R + '.old')
                    _release(R, n)
                else:                               # build the new one beside it, then two renames
                    shutil.rmtree(R + '.new', ignore_errors=True)
                    _release(R + '.new', n)
                    os.rename(R, R + '.old')
                    os.rename(R + '.new', R)
            elif op == 'recreate':
                n += 1
                shutil.rmtree(R)
                _release(R, n)
            elif op == 'rollback':
                if not os.path.isdir(R + '.old'):
                    continue
                shutil.rmtree(R + '.new', ignore_errors=True)
                os.rename(R, R + '.new')
                os.rename(R + '.old', R)
                n -= 1
            elif op in ('subdir', 'subdir_moved_out'):
                n += 1
                dst = R + '/sub.old' if op == 'subdir' else sb + '/sub_moved'
                shutil.rmtree(dst, ignore_errors=True)
                os.rename(R + '/sub', dst)
                _write(R + '/sub/g.txt', b'release %d: g (only sub replaced)' % n)
                _write(R + '/sub/deep/h.txt', b'release %d: h (only sub replaced)' % n)
                _write(R + '/sub/only_%d.txt' % n, b'sub, only in release %d (only sub replaced)' % n)
            elif op == 'rewrite':
                n += 1
                for rel in ('f.txt', 'sub/g.txt'):
                    _write(R + '/' + rel + '.tmp', b'rewritten in place %d ' % n + b'y' * n)
                    os.replace(R + '/' + rel + '.tmp', R + '/' + rel)
            else:
                raise CheckFailure('unknown step %r' % (step,), kind='harness')
            changed = True
            ctx.count('tree_change_' + op)
    finally:
        os.chdir(top)
    if changed:
        ctx.nontrivial('seq:' + repr(case['seq']), sample=case)


@st.composite
def seq_st(draw):
    roots = draw(st.lists(st.sampled_from(SEQ_ROOTS), min_size=1, max_size=2))
    get = st.tuples(st.just('get'), st.sampled_from(roots), st.sampled_from(SEQ_NAMES)).map(list)
    step = st.one_of(get, get, get, st.sampled_from(SEQ_OPS).map(lambda o: [o]))
    # a request that succeeds, a change, then whatever follows
    head = [['get', draw(st.sampled_from(roots)), draw(st.sampled_from(['f.txt', 'sub/g.txt', 'g.txt', 'sub/../f.txt']))], [draw(st.sampled_from(SEQ_OPS))]]
    return {'seq': head + draw(st.lists(step, min_size=1, max_size=10))}


def check_threaded(ctx, case):
    """Two static_file calls on two threads (a legitimate name and one that leaves the root), every single-preemption schedule:
    each answer must be the one the same request gets alone."""
    from vlib.sched import Scheduler, BIG
    from checks.c08_threads import relevant
    import ombott
    base = tree()
    os.chdir(base)
    R_ = base + '/root'
    app = ombott.app
    names = {}

    def handler():
        import threading
        return ombott.static_file(names[threading.get_ident()], R_)
    app.route('/__verif_static_thr', callback=handler, overwrite=True)
    from vlib.wsgi import make_environ, call_app
    good, evil = case['good'], case['evil']

    def run(order, schedule):
        res = {}

        def mk(tag, name):
            def fn():
                import threading
                names[threading.get_ident()] = name
                res[tag] = call_app(app, make_environ('GET', '/__verif_static_thr'))
            return fn
        fns = [mk('good', good), mk('evil', evil)]
        if order:
            fns.reverse()
        with record_opens() as opens:
            sc = Scheduler(fns, schedule, relevant)
            sc.run()
            opened = [p for p in opens if isinstance(p, str)]
        for e in sc.errors:
            if e is not None:
                raise CheckFailure(f'thread raised {fmt_exc(e)} under schedule {schedule}')
        g, e = res['good'], res['evil']
        with open(R_ + '/' + good, 'rb') as f:
            want = f.read()
        if g.code != 200 or g.body != want:
            raise CheckFailure(f'threaded: static_file({good!r}) answered {g.status!r} {g.body[:40]!r} while another thread asked for {evil!r}; alone it serves {want[:40]!r}; '
                               f'order={order} schedule {schedule}')
        if e.code not in (403, 404):
            raise CheckFailure(f'threaded: static_file({evil!r}) answered {e.status!r} {e.body[:40]!r}; order={order} schedule {schedule}')
        for p in opened:
            rp = os.path.realpath(p)
            if rp.startswith(base + '/') and not inside(rp, R_) and os.path.isfile(rp):
                raise CheckFailure(f'threaded: {rp!r} outside the root was opened; order={order} schedule {schedule}')
        ctx.evals += 1
        ctx.nontrivial('thr:' + repr((good, evil, order, schedule)))
        return sc.yields
    for order in (0, 1):
        y0 = run(order, [[0, BIG]])[0]
        for k in range(0, y0 + 1):
            run(order, [[0, k], [1, BIG], [0, BIG]])
        ctx.count('threaded_single_preemption_schedules', y0 + 1)


def run(ctx):
    try:
        for name, case in load_corpus(ID):
            ctx.guarded(check_case, case)
            ctx.count('corpus')
        if ctx.shard == 0:
            for good, evil in (('f.txt', '../top.txt'), ('sub/g.txt', '../root2/decoy.txt')):
                ctx.guarded(check_threaded, {'threaded': True, 'good': good, 'evil': evil})
        if ctx.shard == 0:
            # grid: every root spelling x the classic escapes
            base = tree()
            escapes = ['../top.txt', '../root2/decoy.txt', '../rootx/secret.txt', '../root_backup/secret.txt', '..\\top.txt', '..\\root2\\decoy.txt',
                       '.\\..\\secret.txt', '../root2/f.txt', '../../' + base.strip('/') + '/top.txt', '<base>/top.txt', '/<base>/top.txt', '/etc/passwd',
                       '../../../../../../../../etc/passwd', 'sub/../../top.txt', 'sub/../../root2/decoy.txt', 'sub\\..\\..\\top.txt', '..//top.txt',
                       '../root/f.txt', './../root2/decoy.txt', '..', '../', '../root2', 'f.txt/../../top.txt', '\\..\\top.txt', '/../top.txt', '..\\..\\top.txt',
                       '..\\other\\secret.txt', '../secret.txt', '..\\secret.txt', 'sub/..\\..\\secret.txt', 'f.txt', 'sub/g.txt', 'sub\\g.txt', 'a\\b.txt', '.hidden',
                       'g.txt', '../f.txt', '..\\f.txt', 'deep/h.txt', '../g.txt']
            escapes += ['../backup<root>/secret.txt', '../backup<root>/f.txt', '../../backup<root>/secret.txt', '../backup/<root>/secret.txt', 'mirror<root>/secret.txt',
                        '../backup<root>/../root/secret.txt']
            escapes += ['../Root/f.txt', '../ROOT/secret.txt', '..\\Root\\f.txt', 'SUB/g.txt', '../root/../Root/f.txt', '../../' + base.strip('/').upper() + '/top.txt']
            # dot-dot spelled with a control character / blank / escape inside or beside it
            for dd in ('.\0.', '..\n', '\r..', '.\r.', '..\0', '.\n.', '\0..', '. .', '.\t.', '%2e%2e', '.%00.', '..%00'):
                escapes += [dd + '/top.txt', dd + '/secret.txt', 'sub/' + dd + '/' + dd + '/top.txt', dd + '/root2/decoy.txt', dd + '\\top.txt']
            escapes += ['../root\\secret.txt', '..\\root\\secret.txt', '../root\\sub\\g.txt', '../root /secret.txt', '../root./secret.txt', 'sub/../../root\\secret.txt']
            # files beside / above the root whose name is a proper string prefix of the name of the root directory (or of an ancestor of it)
            prefix_named = ['../roo', '../r', '../ro', 'sub/../../roo', '..//roo', '/../roo', '..\\roo', './../roo', '../roo/', '../../roo', '../su', '../s', 'deep/../../su', '../../root/su',
                            '../stat', '../$HOM', '../$', '../~nobody', '../pu', '../p', '../../srv:80', '../../sr', '../site', '../../site', '../root/../roo', '<base>/roo', '../../' + base.strip('/') + '/roo']
            escapes += prefix_named
            ctx.count('grid_decoy_file_named_like_a_prefix_of_the_root_name', len(prefix_named) * len(ROOTS) * 3)
            for rs in ROOTS:
                for e in escapes:
                    for cwd in ('', 'site2', ''):
                        ctx.guarded(check_case, {'root': rs, 'name': e, 'cwd': cwd})
            ctx.count('escape_grid')
        if ctx.shard == 0:
            # grid: first requests with one root spelling, each kind of change, then every probe name with the same and with another spelling
            for r1, r2 in zip(SEQ_ROOTS, SEQ_ROOTS[3:] + SEQ_ROOTS[:3]):
                for ops in [[o] for o in SEQ_OPS if o != 'rollback'] + [['deploy', 'rollback'], ['deploy', 'deploy_swap'], ['deploy_swap', 'rollback', 'recreate'], ['subdir', 'deploy', 'rollback']]:
                    seq = [['get', r1, 'f.txt'], ['get', r1, 'sub/g.txt'], ['get', r1, 'g.txt'], ['get', r1, 'deep/h.txt']]
                    for o in ops:
                        seq.append([o])
                        seq += [['get', r1, nm] for nm in SEQ_NAMES] + [['get', r2, nm] for nm in SEQ_NAMES[:7]]
                    ctx.guarded(check_sequence, {'seq': seq})
            ctx.count('tree_change_grid')
        n = 4000 if ctx.tier == 'quick' else 30000
        ctx.hyp(case_st(), check_case, n)
        ctx.hyp(seq_st(), check_sequence, 150 if ctx.tier == 'quick' else 1500, label='sequence')
    finally:
        cleanup()


def replay(ctx, case):
    if 'threaded' in case:
        try:
            return check_threaded(ctx, case)
        finally:
            cleanup()
    if 'seq' in case:
        try:
            return check_sequence(ctx, case)
        finally:
            cleanup()
    try:
        # a request may depend on an earlier one served from another working directory: prime with both
        for cwd in ('site2', ''):
            if cwd != case.get('cwd', ''):
                check_case(ctx, {'root': case['root'], 'name': 'f.txt', 'cwd': cwd})
        check_case(ctx, case)
    finally:
        cleanup()
