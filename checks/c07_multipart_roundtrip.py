"""C07  Multipart forms and uploads round-trip exactly."""
import os

from hypothesis import strategies as st

from vlib.core import CheckFailure, load_corpus, fmt_exc
from vlib.encoders import encode_multipart, encode_chunked
from vlib.wsgi import FragStream, make_environ, call_app

ID = 'C07'
LEVEL = 'exploration'
RULE = ('case = list of 0-6 parts (text/file interleaved; names and file names = non-empty text without double quote, CR, LF '
        'and the other str.splitlines separators, incl. ";", "=", spaces, backslash, non-ASCII; repeated names, also one name '
        'for a text and a file part; text values any text; file content adversarial bytes; content types with/without '
        'parameters), boundary over bchars extended until CRLF--boundary does not occur in any value (construction, no '
        'rejection), max_memfile_size = bytes of header blocks + text values + slack (file content often larger, so the '
        'body spills), Content-Length or chunked framing (chunk sizes in lower- or upper-case hex, zero-padded or not), read-fragmentation caps. Oracle: all uploads read piecewise in turns (with a read of request.body in between) give their own bytes; every upload moved around like a file (absolute / end-relative / current-relative seeks, also beyond its own start and end) only ever delivers its own bytes; dict(forms), files (name, '
        'raw_filename, content type, file.read()), POST (union, submission order) equal the generated list. Non-trivial = '
        '>=1 file and >=1 text part, or a separator character inside a quoted parameter, or a repeated name, or data '
        'containing a proper delimiter prefix; distinct by case hash.')
ASSUMPTIONS = ['multipart encoder is harness code (browser style, boundary unquoted in Content-Type)',
               'empty file name = "not a file" (as in bottle) is outside the domain',
               'names containing characters that str.splitlines treats as line boundaries are treated as containing line breaks (outside the domain)']

BCHARS = "0123456789abcdefghijklmnopqrstuvwxyzABCDEFGHIJKLMNOPQRSTUVWXYZ'()+_,-./:=?"
LINEBREAKS = '\r\n\x0b\x0c\x1c\x1d\x1e\x85\u2028\u2029'
_name_chars = st.characters(exclude_categories=['Cs'], exclude_characters='"' + LINEBREAKS)
NAME = st.one_of(
    st.sampled_from(['a', 'b', 'f', 'name', 'a;b', 'x=y', 'a b', 'back\\slash', 'é', '日本', 'a; filename=zz', 'n;', ';n', "q'q", 'a:b', ' lead', 'trail ', 'e\u0301', 'a%22b', '%0D%0A']),
    st.text(_name_chars, min_size=1, max_size=8),
    st.text('ab;= \\é:,', min_size=1, max_size=6))
FILENAME = st.one_of(
    st.sampled_from(['x.txt', 'x;y.txt', 'a=b.bin', 'with space.dat', 'C:\\dir\\f.txt', 'é.png', 'a; name=q', '.hidden', 'semi;', 'cafe\u0301.txt', 'A\u030angstro\u0308m', '\u1100\u1161.bin', '\u2126.txt', 'a%22b%0D.txt']),
    st.text(_name_chars, min_size=1, max_size=10))
CTYPE = st.sampled_from([None, 'text/plain', 'application/octet-stream', 'text/plain; charset=utf-8', 'image/png; a=b; c="d;e"'])


@st.composite
def form_case(draw):
    b0 = draw(st.one_of(st.sampled_from(['b', '--b', 'bnd', '-', 'XyZ0', "'b'", "''", "'-'", '(b)', ':b:', '=b=', '.b.', "b'", "'b", '+b+', ',b,', '?b?', '/b/', '_b_',
                                         "'abc'", '((', "''''"]), st.text(BCHARS, min_size=1, max_size=12),
                        st.text(BCHARS, min_size=30, max_size=70)))
    tok = ('\r\n--' + b0).encode()
    adversarial = st.lists(st.one_of(
        st.sampled_from([b'\r', b'\n', b'-', b'\r\n', b'--', b'\r\n--', tok[:-1], tok[:len(tok) // 2 + 1], b'--' + b0.encode(), b'\r\n\r\n',
                         # suffixes of the delimiter (what is still expected when a read boundary falls inside a delimiter)
                         tok[1:], tok[2:], tok[3:], tok[4:], tok[-1:], tok[-2:], tok[len(tok) // 2:], b0.encode() + b'--', b0.encode() + b'\r\n']),
        st.binary(min_size=1, max_size=6)), max_size=8).map(b''.join)
    file_content = st.one_of(adversarial, st.binary(max_size=40), st.binary(min_size=200, max_size=1500))
    text_value = st.one_of(st.text(max_size=12), st.sampled_from(['', ' ', '\r\n', '--', 'a\r\n--b', 'é', 'x' * 50, '\ufeff', '\ufeffhello', 'a\ufeff', '\ufffe', '\x00', '\x1a',
                                                                  b0[-2:] + 'tail', b0[len(b0) // 2:] + 'x']),
                           adversarial.map(lambda b: b.decode('latin1')))
    names = draw(st.lists(NAME, min_size=1, max_size=3))
    parts = []
    for _ in range(draw(st.integers(0, 6))):
        name = draw(st.sampled_from(names))
        if draw(st.booleans()):
            parts.append({'name': name, 'filename': draw(FILENAME), 'ctype': draw(CTYPE), 'value': draw(file_content)})
        else:
            parts.append({'name': name, 'value': draw(text_value).encode('utf8')})
    # make the boundary legal for this content by construction
    boundary = b0
    i = 0
    while any((b'\r\n--' + boundary.encode()) in (b'\r\n' + p['value']) for p in parts) and len(boundary) < 70:
        boundary += BCHARS[(i * 7 + len(parts)) % len(BCHARS)]
        i += 1
    return {
        'boundary': boundary, 'parts': parts,
        'slack': draw(st.one_of(st.integers(0, 3), st.integers(0, 200))),
        'chunked': draw(st.one_of(st.none(), st.lists(st.integers(1, 60), max_size=6))),
        'pattern': draw(st.one_of(st.just([]), st.lists(st.integers(1, 9), min_size=1, max_size=6),
                                  st.lists(st.integers(1, 200), min_size=1, max_size=6))),
        'epilogue': draw(st.sampled_from([b'\r\n', b'\r\n', b''])),
        'hex_upper': draw(st.sampled_from([0, 0, 1, 1, 2, 3])),
    }


def expected_of(parts):
    forms, files, post = {}, {}, {}

    def put(d, k, v):
        if k in d:
            if not isinstance(d[k], list) or d[k] is v:
                d[k] = [d[k]]
            d[k].append(v)
        else:
            d[k] = v
    # values are tuples/str, never lists, so isinstance(list) marks promotion
    for p in parts:
        if p.get('filename') is not None:
            ct = (p.get('ctype') or '').split(';')[0].strip()
            item = ('FILE', p['name'], p['filename'], ct, p['value'])
            put(files, p['name'], item)
        else:
            item = p['value'].decode('utf8')
            put(forms, p['name'], item)
        put(post, p['name'], item)
    return forms, files, post


def observe(d):
    out = {}
    for k, v in d.items():
        def one(x):
            if isinstance(x, str):
                return x
            ct = x.content_type
            ct = getattr(ct, 'value', ct)
            x.file.seek(0)
            return ('FILE', x.name, x.raw_filename, ct, x.file.read())
        out[k] = [one(x) for x in v] if isinstance(v, list) else one(v)
    return out


def check_case(ctx, case):
    import ombott
    parts = case['parts']
    boundary = case['boundary']
    if any((b'\r\n--' + boundary.encode()) in (b'\r\n' + p['value']) for p in parts):
        ctx.exclude('boundary_occurs_in_content')
        return
    body, truth = encode_multipart(boundary, parts, b'', case['epilogue'])
    hdr_bytes = sum(e - s for k, s, e in truth['sections'] if k == 'headers')
    text_bytes = sum(len(p['value']) for p in parts if p.get('filename') is None)
    mem = max(1, hdr_bytes + text_bytes + case['slack'])
    wire = None
    if case['chunked'] is not None:
        # (chunk sizes are HEXDIG: upper- or lower-case letters, optionally zero-padded)
        wire, layout = encode_chunked(body, case['chunked'], [{'upper': bool(case.get('hex_upper')), 'zeros': (case.get('hex_upper') or 0) // 2}])
        # stated precondition of the chunked scanner (C05): buffer >= longest chunk-size line
        mem = max(mem, max(e - s for k, s, e in layout if k in ('size', 'last')))
    app = ombott.Ombott({'max_memfile_size': mem})
    seen = {}

    @app.route('/f', method='POST')
    def h():
        rq = app.request
        # first: all uploads read piecewise in turns (a few bytes of one, a few of the next ...), with a read of request.body in between:
        # every upload is its own window onto the buffered body
        ups = []
        for v in rq.files.values():
            ups += v if isinstance(v, list) else [v]
        acc = [b''] * len(ups)
        step = 1 + case['slack'] % 11
        for u in ups:
            u.file.seek(0)
        rounds = 0
        while True:
            progressed = False
            for i, u in enumerate(ups):
                piece = u.file.read(step)
                if piece:
                    acc[i] += piece
                    progressed = True
            if rounds == 1:
                rq.body.read(13)
            rounds += 1
            if not progressed:
                break
        seen['interleaved'] = [(u.name, u.raw_filename, acc[i]) for i, u in enumerate(ups)]
        # then: every upload is moved around like a file (absolute, relative to its end / to the current position, also beyond its own start and end)
        probes = []
        for i, u in enumerate(ups):
            n = len(acc[i])
            for off, whence, warm in ((0, 0, 0), (2, 0, 0), (n + 9, 0, 0), (0, 2, 0), (-3, 2, 0), (-n, 2, 0), (-(n + 5), 2, 0), (-(n + 700), 2, 0), (-1, 1, 2), (-(n + 7), 1, 2),
                                      (-(n + 3000), 1, 1), (3, 1, 1)):
                try:
                    u.file.seek(0)
                    u.file.read(warm)
                    u.file.seek(off, whence)
                    probes.append((i, off, whence, warm, u.file.read()))
                except (ValueError, OSError):
                    probes.append((i, off, whence, warm, None))       # refusing to move before the start is what real files do
            u.file.seek(0)
        seen['probes'] = probes
        seen['forms'] = observe(rq.forms)
        seen['files'] = observe(rq.files)
        seen['post'] = observe(rq.POST)
        seen['spilled'] = type(rq.body).__name__ != 'BytesIO'
        return 'ok'

    headers = {'Content-Type': 'multipart/form-data; boundary=' + boundary}
    if case['chunked'] is not None:
        headers['Transfer-Encoding'] = 'chunked'
        env = make_environ('POST', '/f', stream=FragStream(wire, case['pattern']), content_length=None, headers=headers)
    else:
        env = make_environ('POST', '/f', stream=FragStream(body, case['pattern']), content_length=len(body), headers=headers)
    r = call_app(app, env)
    if r.escaped is not None:
        raise CheckFailure(f'exception escaped: {fmt_exc(r.escaped)}')
    if r.code != 200:
        raise CheckFailure(f'well-formed form rejected with {r.status!r}: boundary={boundary!r} mem={mem} body={body[:300]!r} '
                           f'errors={r.errors[-400:]}')
    want_inter = [(p['name'], p['filename'], p['value']) for p in parts if p.get('filename') is not None]
    if sorted(seen.get('interleaved') or [], key=repr) != sorted(want_inter, key=repr):
        raise CheckFailure(f'uploads read piecewise in turns differ from what was sent: boundary={boundary!r}\n got  {seen.get("interleaved")!r}\n want {want_inter!r}')
    contents = [p['value'] for p in parts if p.get('filename') is not None]
    by_upload = {}
    for (nm, fn, data) in seen.get('interleaved') or []:
        by_upload.setdefault(len(by_upload), data)
    for i, off, whence, warm, got in seen.get('probes') or []:
        data = by_upload[i]
        n = len(data)
        target = off if whence == 0 else (n + off if whence == 2 else min(warm, n) + off)
        if got is None:
            if target >= 0:
                raise CheckFailure(f'upload {i} ({n} bytes): seek({off}, {whence}) after reading {warm} bytes raised although the target {target} is not before the start')
            continue
        want_tail = data[max(0, target):]
        if got != want_tail:
            raise CheckFailure(f'upload {i} ({n} bytes): seek({off}, {whence}) after reading {warm} bytes, then read() gave {got[:60]!r} ({len(got)} bytes); the upload\'s own content from '
                               f'offset {max(0, target)} is {want_tail[:60]!r} ({len(want_tail)} bytes): bytes outside the upload were delivered')
        ctx.count('upload_seek_probes')
    forms, files, post = expected_of(parts)
    for what, want in (('forms', forms), ('files', files), ('post', post)):
        got = seen.get(what)
        if got != want:
            raise CheckFailure(f'request.{what if what != "post" else "POST"} differs: boundary={boundary!r}\n got  {got!r}\n want {want!r}\n body={body[:400]!r}')
    # classification
    nfile = sum(1 for p in parts if p.get('filename') is not None)
    ntext = len(parts) - nfile
    names = [p['name'] for p in parts]
    sep = any(c in (p['name'] + (p.get('filename') or '')) for p in parts for c in ';= \\')
    rep = len(set(names)) < len(names)
    tok = b'\r\n--' + boundary.encode()
    pref = any(tok[:k] in p['value'] for p in parts for k in (3, 4, len(tok) - 1) if k <= len(tok) - 1)
    mixed = any(p['name'] == q['name'] and (p.get('filename') is None) != (q.get('filename') is None) for p in parts for q in parts)
    for flag, key in ((nfile and ntext, 'file_and_text'), (sep, 'separator_in_quoted_param'), (rep, 'repeated_name'),
                      (pref, 'delimiter_prefix_in_data'), (mixed, 'same_name_text_and_file'), (seen.get('spilled'), 'spilled_to_disk'),
                      (case['chunked'] is not None, 'chunked'), (bool(case['pattern']), 'short_reads')):
        if flag:
            ctx.count(key)
    if (nfile and ntext) or sep or rep or pref:
        ctx.nontrivial(case, sample={'boundary': boundary, 'parts': parts})


def check_locale(ctx, case):
    """Platform dimension: the same form parsed in a child interpreter whose locale encoding is not UTF-8 (LC_ALL=C, UTF-8 mode and locale
    coercion off): multipart headers are UTF-8 whatever the server's locale is."""
    import os, subprocess, sys
    from vlib.core import VERIF, REPO
    env = dict(os.environ, LC_ALL='C', LANG='C', PYTHONUTF8='0', PYTHONCOERCECLOCALE='0', PYTHONHASHSEED='0', VERIF_REPO=REPO, PYTHONIOENCODING='utf-8')
    p = subprocess.run([sys.executable, os.path.join(VERIF, 'run_check.py'), 'C07', '--replay', os.path.join(VERIF, 'corpus', 'C07', case['file'])], env=env, cwd=VERIF,
                       stdout=subprocess.PIPE, stderr=subprocess.STDOUT, text=True, encoding='utf-8', errors='replace', timeout=300)
    ctx.evals += 1
    if p.returncode == 1 and 'VIOLATION property=C07' in p.stdout:
        raise CheckFailure(f'under LC_ALL=C without UTF-8 mode the form {case["file"]} does not round-trip: ' + p.stdout[-700:])
    if p.returncode != 0:
        raise RuntimeError(f'child interpreter failed (exit {p.returncode}): {p.stdout[-500:]}')
    ctx.nontrivial('locale:' + case['file'])


def run(ctx):
    for name, case in load_corpus(ID):
        ctx.guarded(check_case, case)
        ctx.count('corpus')
    if ctx.shard == 0 and not os.environ.get('VERIF_SKIP_CORPUS'):
        for fn in ('nonascii_names.json', 'f07a_semicolon_in_quotes.json'):
            ctx.guarded(check_locale, {'locale': True, 'file': fn})
        ctx.count('child_interpreter_with_non_utf8_locale')
    n = 2500 if ctx.tier == 'quick' else 20000
    ctx.hyp(form_case(), check_case, n)


def replay(ctx, case):
    if case.get('locale'):
        return check_locale(ctx, case)
    check_case(ctx, case)
