"""C13  Body size limits and disk spooling bound what a request can consume."""
import json

from hypothesis import strategies as st

from vlib.core import CheckFailure, load_corpus, fmt_exc
from vlib.encoders import encode_chunked, encode_multipart
from vlib.wsgi import FragStream, make_environ, call_app

ID = 'C13'
LEVEL = 'exploration'
RULE = ('case = (content kind in {raw body, urlencoded form, JSON, multipart text fields, multipart file part, multipart part with an empty file name, small multipart form followed by an epilogue / preceded by a preamble of S bytes}, max_body_size M in {None, 1, 20, 100, 1000} (handed over as dict, NameSpace, configuration class, class inheriting the limits from an intermediate class, or through setup()), request headers about the connection (keep-alive, close, Expect), '
        'or generated, max_memfile_size B in {1, 8, 33, 64, 256, 4096} (>= 8 for chunked framing: the size-line scanner is bounded by the buffer), body size S '
        'placed at 0, 1, M-1, M, M+1, M+B-1, M+B, M+B+1, 3M, B-1, B, B+1, 2B.. or generated, framing = Content-Length or chunked (optionally with an additional Content-Length header, which the transfer coding overrides) with chunk sizes 1, 3, B, >B, a trailer section of 0-40000 lines after the last chunk (the stream may be pulled at most limit + one buffer beyond the end of the body), a chunk-size line with a minus sign in front of any chunk (an over-limit body must still be refused), '
        'one huge chunk, read fragmentation caps). Oracle from a recording wsgi.input: S > M => 413 and the payload bytes handed out by the stream <= M + B '
        '(chunk framing bytes mapped back to payload offsets); S <= M => raw body accepted and byte-identical; accepted raw body with S > B => Request.body '
        'is a real file (not BytesIO, fileno() works) with identical content; urlencoded / JSON text > B and multipart header+text bytes > B => refused with '
        'a 4xx and the handler never obtains the value, <= B => delivered exactly; file parts far beyond B are accepted byte-identically; with the temporary directory made unusable (fault injection) a raw body above B is never accepted from memory. Plus sequences of 2-3 raw bodies on ONE request object: after the first body was read (accepted or refused) the handler registers the next stream through request["wsgi.input"] = stream (and request["CONTENT_LENGTH"], before or after it) and reads the body again; every body of the sequence is judged by the same rule (over M => 413 after at most M + B payload bytes of its own stream, within M => accepted byte-identically). Non-trivial = S '
        'within one buffer of M or of B (or M+B), or the body spilled; distinct by case hash.')
ASSUMPTIONS = ['wsgi.input may return short reads', 'for chunked framing B >= length of the longest chunk-size line (stated precondition of the scanner)',
               '"refused" = any 4xx (the configured mapping gives 413)',
               'sequences of bodies with Content-Length framing: every registered stream ends with its body and no later body is longer than the first one '
               '(whether a CONTENT_LENGTH re-assigned through the request object is honoured is not part of this property); chunked sequences are unrestricted']


def data_of(n, salt=0):
    return bytes(65 + ((i * 7 + salt) % 26) for i in range(n))


def build_body(kind, S, extra):
    """-> (body bytes, content type, expected value seen by the handler, in-memory text bytes (for the B rule))"""
    if kind == 'raw':
        d = data_of(S)
        return d, (extra.get('raw_ctype') or 'application/octet-stream'), d, None          # read raw through request.body whatever media type is declared
    if kind == 'urlencoded':
        if S < 2:
            d = b'a'[:S]
            return d, 'application/x-www-form-urlencoded', ({'a': ''} if S else {}), S
        v = data_of(S - 2).decode()
        return b'a=' + v.encode(), 'application/x-www-form-urlencoded', {'a': v}, S
    if kind == 'json':
        if S < 2:
            d = b'7'[:S]
            return d, 'application/json', (7 if S else None), S
        v = data_of(S - 2).decode()
        return b'"' + v.encode() + b'"', 'application/json', v, S
    if kind == 'mp_text':
        # S is the total of header-block bytes + text bytes over the parts; split over 1-2 parts
        nparts = extra.get('nparts', 1)
        parts = []
        hdr = 0
        for i in range(nparts):
            p = {'name': 't%d' % i, 'value': b''}
            hdr += len('Content-Disposition: form-data; name="%s"' % p['name'])
            parts.append(p)
        text_total = max(0, S - hdr)
        per = text_total // nparts
        for i, p in enumerate(parts):
            p['value'] = data_of(per if i else text_total - per * (nparts - 1), i)
        if extra.get('exact_first') and nparts >= 2:
            # the running total (header block + text) lands exactly on the threshold at the end of the first part; more text follows
            h0 = len('Content-Disposition: form-data; name="t0"')
            if extra['B'] >= h0:
                parts[0]['value'] = data_of(extra['B'] - h0, 0)
                parts[1]['value'] = data_of(max(1, S), 1)
        body, truth = encode_multipart('bnd', parts, b'', b'\r\n')
        mem = sum(e - s for k, s, e in truth['sections'] if k == 'headers') + sum(len(p['value']) for p in parts)
        want = {p['name']: p['value'].decode() for p in parts}
        return body, 'multipart/form-data; boundary=bnd', want, mem
    if kind == 'mp_emptyfn':
        # a part with a present but empty file name (what browsers send for an empty file input), here with data
        content = data_of(S, 5)
        parts = [{'name': 'f', 'filename': '', 'ctype': 'application/octet-stream', 'value': content}, {'name': 't', 'value': b'small'}]
        body, truth = encode_multipart('bnd', parts, b'', b'\r\n')
        mem = sum(e - s for k, s, e in truth['sections'] if k == 'headers') + 5
        return body, 'multipart/form-data; boundary=bnd', content, mem
    if kind in ('mp_epilogue', 'mp_preamble'):
        # a small form whose bulk (S bytes) is text after the closing delimiter / before the first delimiter: it counts as body, not as form text
        parts = [{'name': 't', 'value': b'small'}, {'name': 'f', 'filename': 'u.bin', 'value': b'content'}]
        junk = data_of(S, 9).replace(b'-', b'_')
        if kind == 'mp_epilogue':
            body, truth = encode_multipart('bnd', parts, b'', b'\r\n' + junk)
        else:
            body, truth = encode_multipart('bnd', parts, b'\r\n' + junk + b'\r\n', b'\r\n')
        mem = sum(e - s for k, s, e in truth['sections'] if k == 'headers') + 5
        return body, 'multipart/form-data; boundary=bnd', {'t': 'small', 'f': b'content'}, mem
    if kind == 'mp_file':
        content = data_of(S, 3)
        parts = [{'name': 'f', 'filename': 'u.bin', 'ctype': 'application/octet-stream', 'value': content}]
        body, truth = encode_multipart('bnd', parts, b'', b'\r\n')
        mem = sum(e - s for k, s, e in truth['sections'] if k == 'headers')
        return body, 'multipart/form-data; boundary=bnd', content, mem
    raise AssertionError(kind)


def payload_consumed(layout, pos):
    return sum(max(0, min(e, pos) - s) for k, s, e in layout if k == 'data')


def check_case(ctx, case):
    import ombott
    from ombott.ombott import DefaultConfig
    kind, S, M, B = case['kind'], case['S'], case['M'], case['B']
    body, ctype, want, mem = build_body(kind, S, case)
    total = len(body)
    cfg = {'max_memfile_size': B}
    if M is not None:
        cfg['max_body_size'] = M
    form = case.get('cfg_form') or 'dict'
    if form == 'dict':
        app = ombott.Ombott(cfg)
    elif form == 'namespace':
        app = ombott.Ombott(DefaultConfig(cfg))
    elif form == 'class':
        app = ombott.Ombott(type('SiteConfig', (DefaultConfig,), dict(cfg)))
    elif form == 'class2':
        site = type('SiteConfig', (DefaultConfig,), dict(cfg))                  # the limits are inherited from an intermediate configuration class
        app = ombott.Ombott(type('Production', (site,), {'debug': False}))
    elif form == 'setup':
        app = ombott.Ombott()
        app.setup(cfg)
    else:
        app = ombott.Ombott({'max_memfile_size': 7, 'max_body_size': 1})
        app.setup(type('Production', (type('SiteConfig', (DefaultConfig,), dict(cfg)),), {'catchall': True}))
    ctx.count('config_given_as_' + form)
    seen = {}

    def h():
        rq = app.request
        if kind == 'raw':
            f = rq.body
            seen['type'] = type(f).__name__
            try:
                seen['fileno'] = f.fileno()
            except Exception as e:  # BytesIO raises UnsupportedOperation
                seen['fileno'] = repr(e)
            seen['value'] = f.read()
            seen['again'] = rq.body.read()
        elif kind == 'urlencoded':
            seen['value'] = dict(rq.forms)
        elif kind == 'json':
            seen['value'] = rq.json
        elif kind == 'mp_text':
            seen['value'] = dict(rq.forms)
        elif kind == 'mp_emptyfn':
            seen['forms'] = dict(rq.forms)
            seen['nfiles'] = len(rq.files)
        elif kind in ('mp_epilogue', 'mp_preamble'):
            seen['value'] = {'t': rq.forms.get('t'), 'f': rq.files['f'].file.read()}
            seen['body'] = rq.body.read()
        elif kind == 'mp_file':
            up = rq.files['f']
            seen['value'] = up.file.read()
            seen['type'] = type(rq.body).__name__
        seen['done'] = True
        return 'ok'
    app.route('/u', method='POST', callback=h)
    headers = {'Content-Type': ctype}
    headers.update(case.get('req_headers') or {})             # connection management / expectation headers have no say in how much may be read
    layout = None
    if case['chunks'] is not None:
        ntrail = case.get('trailer_lines') or 0
        wire, layout = encode_chunked(body, case['chunks'], [{'upper': bool((S + B) % 2), 'zeros': (S + B) % 3}], (['x' * case['long_ext']] if case.get('long_ext') else None),
                                      trailers=['X-T%d: v' % j for j in range(ntrail)])        # (hex letters in either case; optionally a chunk extension of long_ext characters)
        if case.get('neg_line'):
            # a size line with a minus sign (an "empty chunk" that int(x, 16) would read as a negative number) in front of the j-th chunk
            j, val = case['neg_line']
            sizes_at = [s_ for k_, s_, e_ in layout if k_ in ('size', 'last')]
            at = sizes_at[j % len(sizes_at)]
            ins = b'-%x\r\n\r\n' % val
            wire = wire[:at] + ins + wire[at:]
            layout = [(k_, s_ + (len(ins) if s_ >= at else 0), e_ + (len(ins) if s_ >= at else 0)) for k_, s_, e_ in layout]
        last_end = [e_ for k_, s_, e_ in layout if k_ == 'last'][0]
        longest = max(e - s for k, s, e in layout if k in ('size', 'last'))
        if longest > B and not case.get('long_ext'):
            ctx.exclude('size_line_longer_than_buffer')
            return
        headers['Transfer-Encoding'] = case.get('te') or 'chunked'        # (coding names are case-insensitive; the value is a list that ends with chunked)
        stream = FragStream(wire + b'#SENTINEL#', case['pattern'])
        # a chunked request may also carry a Content-Length (the transfer coding takes precedence): only for kinds whose accessors do not
        # consult the declared length themselves
        extra_cl = case.get('cl_with_chunked')
        if extra_cl is not None and kind in ('raw', 'mp_file'):
            extra_cl = {'zero': 0, 'total': total, 'limit': M if M is not None else total, 'small': min(total, 3)}[extra_cl]
            ctx.count('chunked_request_with_content_length')
        else:
            extra_cl = None
        env = make_environ('POST', '/u', stream=stream, content_length=extra_cl, headers=headers)
    else:
        stream = FragStream(body + b'#SENTINEL#', case['pattern'])
        env = make_environ('POST', '/u', stream=stream, content_length=total, headers=headers)
    if case.get('tempdir_broken'):
        # fault injection: the temporary directory is gone, so a body cannot be moved to disk
        import tempfile
        old_tmp = tempfile.tempdir
        tempfile.tempdir = '/nonexistent-verif-tempdir/x'
        try:
            r = call_app(app, env)
        finally:
            tempfile.tempdir = old_tmp
        ctx.count('spool_failure_injected')
        if r.escaped is not None:
            raise CheckFailure(f'kind={kind} S={S} B={B}: exception escaped when the temporary file could not be created: {fmt_exc(r.escaped)}')
        if r.code == 200 and total > B and kind == 'raw' and seen.get('type') == 'BytesIO':
            raise CheckFailure(f'kind={kind} S={S} body={total}B B={B}: the temporary file could not be created and a body larger than max_memfile_size was kept in memory '
                               f'({seen.get("type")}, {len(seen.get("value") or b"")} bytes) and accepted')
        if r.code == 200 and total > B and kind != 'raw':
            ctx.count('spool_failure_other_kind_accepted')
        ctx.nontrivial(case)
        return
    r = call_app(app, env)
    if case.get('long_ext') and layout:
        # a chunk header line longer than the buffer: refused, after reading at most two buffers of it (its extension is not a way around the limits)
        first = [(s_, e_) for k_, s_, e_ in layout if k_ in ('size', 'last')][0]
        if first[1] - first[0] > B:
            if not (400 <= (r.code or 0) < 500):
                raise CheckFailure(f'chunk header line of {first[1] - first[0]} bytes (extension of {case["long_ext"]}) with max_memfile_size={B}: answered {r.status!r}')
            if stream.pos > first[0] + 2 * B + 4:
                raise CheckFailure(f'chunk header line of {first[1] - first[0]} bytes (extension of {case["long_ext"]}) with max_memfile_size={B}, max_body_size={M}: {stream.pos} bytes were pulled '
                                   f'from the stream before the refusal')
            ctx.count('over_long_chunk_header_refused')
            ctx.nontrivial(case)
            return
    what = f'kind={kind} S={S} body={total}B M={M} B={B} framing={"chunked " + str(case["chunks"][:4]) if layout else "length"}'
    if r.escaped is not None:
        raise CheckFailure(f'{what}: exception escaped {fmt_exc(r.escaped)}')
    consumed = payload_consumed(layout, stream.pos) if layout else min(stream.pos, total)
    over = M is not None and total > M
    if layout and M is not None and stream.pos > last_end + M + B:
        raise CheckFailure(f'{what}: {stream.pos} bytes were pulled from the stream; the chunked body ends at wire offset {last_end} and max_body_size + one buffer is {M + B} '
                           f'(a trailer section of {case.get("trailer_lines") or 0} lines follows)')
    if case.get('neg_line'):
        ctx.count('negative_size_line_inserted')
        if over:
            if r.code == 200 or seen.get('done'):
                raise CheckFailure(f'{what}: a body of {total} bytes over max_body_size was accepted ({r.status!r}) with a negative chunk-size line {case["neg_line"]} in the coding')
            if consumed > M + B:
                raise CheckFailure(f'{what}: {consumed} payload bytes were read with a negative chunk-size line {case["neg_line"]} in the coding; limit + one buffer = {M + B}')
        elif r.code != 200 and not (400 <= (r.code or 0) < 500):
            raise CheckFailure(f'{what}: status {r.status!r} with a negative chunk-size line in the coding')
        ctx.nontrivial(case)
        return
    if over:
        if r.code != 413:
            raise CheckFailure(f'{what}: body exceeds max_body_size but the answer is {r.status!r}')
        if consumed > M + B:
            raise CheckFailure(f'{what}: {consumed} payload bytes were read from the stream before the 413; limit + one buffer = {M + B}')
        if seen.get('done'):
            raise CheckFailure(f'{what}: handler completed although the body is over the limit')
        ctx.count('over_limit_413')
    else:
        if r.code == 413 and kind == 'raw':
            raise CheckFailure(f'{what}: body within max_body_size refused with 413')
        if kind == 'raw':
            if r.code != 200:
                raise CheckFailure(f'{what}: raw body within the limit answered {r.status!r} {r.errors[-400:]}')
            if seen.get('value') != body or seen.get('again') != body:
                raise CheckFailure(f'{what}: body content differs ({len(seen.get("value") or b"")} bytes read)')
            if total > B:
                if seen['type'] == 'BytesIO' or not isinstance(seen['fileno'], int):
                    raise CheckFailure(f'{what}: body larger than max_memfile_size is held as {seen["type"]} (fileno: {seen["fileno"]!r}), not in a file on disk')
                ctx.count('spilled_to_file')
            else:
                ctx.count('in_memory' if seen['type'] == 'BytesIO' else 'file_although_small')
        elif kind in ('urlencoded', 'json', 'mp_text'):
            if mem > B:
                if not (400 <= (r.code or 0) < 500):
                    raise CheckFailure(f'{what}: {mem} bytes of form text exceed max_memfile_size but the answer is {r.status!r}')
                if 'value' in seen:
                    raise CheckFailure(f'{what}: handler obtained form text of {mem} bytes although max_memfile_size is {B}')
                ctx.count('text_over_threshold_refused')
            else:
                if r.code != 200:
                    raise CheckFailure(f'{what}: {mem} bytes of form text fit max_memfile_size but the answer is {r.status!r} {r.errors[-300:]}')
                if seen.get('value') != want:
                    raise CheckFailure(f'{what}: form value differs: {str(seen.get("value"))[:80]!r} vs {str(want)[:80]!r}')
                ctx.count('text_within_threshold_delivered')
        elif kind == 'mp_emptyfn':
            if mem > B:
                ctx.exclude('file_part_header_block_larger_than_buffer')
            else:
                if r.code not in (200, 413):
                    raise CheckFailure(f'{what}: part with an empty file name answered {r.status!r} {r.errors[-300:]}')
                text = sum(len(v) for v in (seen.get('forms') or {}).values() if isinstance(v, str))
                if text > B:
                    raise CheckFailure(f'{what}: the handler obtained {text} characters of form text although max_memfile_size is {B} '
                                       f'(a part with an empty file name was loaded into memory)')
                ctx.count('empty_filename_part_beyond_threshold' if S > B else 'empty_filename_part_small')
        elif kind in ('mp_epilogue', 'mp_preamble'):
            if mem > B:
                ctx.exclude('file_part_header_block_larger_than_buffer')
            else:
                if kind == 'mp_preamble' and r.code == 400:
                    ctx.count('preamble_refused_400')        # text before the first delimiter is refused by the form reader: only the size rules are judged
                elif r.code != 200:
                    raise CheckFailure(f'{what}: form with {S} bytes of {kind[3:]} within the limit answered {r.status!r} {r.errors[-300:]}')
                elif seen.get('value') != want:
                    raise CheckFailure(f'{what}: form values differ: {seen.get("value")!r}')
                elif seen.get('body') != body:
                    raise CheckFailure(f'{what}: request.body ({len(seen.get("body") or b"")} bytes) is not the body sent ({total} bytes)')
                if r.code == 200:
                    ctx.count(kind + '_accepted')
        elif kind == 'mp_file':
            if mem > B:
                ctx.exclude('file_part_header_block_larger_than_buffer')
            else:
                if r.code != 200:
                    raise CheckFailure(f'{what}: file upload ({S} bytes, header block {mem}) answered {r.status!r} {r.errors[-300:]}')
                if seen.get('value') != want:
                    raise CheckFailure(f'{what}: uploaded content differs')
                if total > B and seen.get('type') == 'BytesIO':
                    raise CheckFailure(f'{what}: multipart body larger than max_memfile_size held in memory')
                ctx.count('file_part_beyond_threshold' if S > B else 'file_part_small')
    near = (M is not None and abs(total - M) <= B) or abs(total - B) <= 1 or (mem is not None and abs(mem - B) <= 1) or (M is not None and abs(total - (M + B)) <= 1)
    ctx.count('kind_' + kind)
    ctx.count('chunked' if layout else 'content_length')
    if layout and case['chunks'] and max(case['chunks']) > B:
        ctx.count('chunk_larger_than_buffer')
    if case['pattern']:
        ctx.count('short_reads')
    if M is not None and total == M:
        ctx.count('exactly_at_max_body_size')
    if M is not None and total == M + 1:
        ctx.count('one_over_max_body_size')
    if mem is not None and mem == B:
        ctx.count('text_exactly_at_threshold')
    if mem is not None and mem == B + 1:
        ctx.count('text_one_over_threshold')
    if near or (kind == 'raw' and total > B and not over):
        ctx.nontrivial(case, sample=case)


def check_sequence(ctx, case):
    """Several bodies, one after the other, on one request object: the first arrives with the request, every further one is a stream the handler registers
    through request['wsgi.input'] = ... (the documented way to replace the input). The limit rule applies to each of them on its own."""
    import ombott
    M, B, sizes = case['M'], case['B'], case['sizes']
    chunked = case.get('chunks') is not None
    cfg = {'max_memfile_size': B}
    if M is not None:
        cfg['max_body_size'] = M
    app = ombott.Ombott(cfg)
    bodies = [data_of(S, 3 * i) for i, S in enumerate(sizes)]
    streams, layouts = [], []
    for b in bodies:
        if chunked:
            wire, layout = encode_chunked(b, case['chunks'], [{'upper': False, 'zeros': 0}])
            if max(e - s_ for k, s_, e in layout if k in ('size', 'last')) > B:
                ctx.exclude('size_line_longer_than_buffer')
                return
        else:
            wire, layout = b, None
        # (a chunked stream goes on behind the coding; a stream registered with a declared length is a complete one that ends with its body)
        streams.append(FragStream(wire + (b'#SENTINEL#' if chunked else b''), case.get('pattern') or []))
        layouts.append(layout)
    results = []

    def h():
        rq = app.request
        for i in range(len(bodies)):
            if i:
                if not chunked and case.get('order') != 'stream_first':
                    rq['CONTENT_LENGTH'] = str(len(bodies[i]))
                rq['wsgi.input'] = streams[i]
                if not chunked and case.get('order') == 'stream_first':
                    rq['CONTENT_LENGTH'] = str(len(bodies[i]))
            try:
                f = rq.body
                results.append((200, f.read(), type(f).__name__))
            except Exception as e:  # the refusal is an HTTPError carrying the status
                results.append((getattr(e, 'status_code', None) or fmt_exc(e), None, None))
        return 'ok'
    app.route('/u', method='POST', callback=h)
    headers = {'Content-Type': 'application/octet-stream'}
    if chunked:
        headers['Transfer-Encoding'] = 'chunked'
    env = make_environ('POST', '/u', stream=streams[0], content_length=None if chunked else len(bodies[0]), headers=headers)
    r = call_app(app, env)
    what = f'bodies of {sizes} bytes in turn on one request object (each further one registered through request["wsgi.input"] = stream' + \
           ('' if chunked else f', CONTENT_LENGTH assigned {"after" if case.get("order") == "stream_first" else "before"} it') + \
           f'), M={M} B={B} framing={"chunked " + str(case["chunks"][:4]) if chunked else "length"}'
    if r.escaped is not None or r.code != 200 or len(results) != len(bodies):
        raise CheckFailure(f'{what}: the handler that catches every refusal answered {r.status!r} after {len(results)} bodies {fmt_exc(r.escaped) if r.escaped else r.errors[-300:]}')
    for i, (b, (status, got, typ)) in enumerate(zip(bodies, results)):
        over = M is not None and len(b) > M
        consumed = payload_consumed(layouts[i], streams[i].pos) if chunked else min(streams[i].pos, len(b))
        history = [('refused' if M is not None and len(x) > M else 'accepted') for x in bodies[:i]]
        if over:
            if status != 413:
                raise CheckFailure(f'{what}: body #{i} ({len(b)} bytes, earlier bodies: {history}) exceeds max_body_size but reading it gave {status!r}')
            if consumed > M + B:
                raise CheckFailure(f'{what}: body #{i}: {consumed} payload bytes were read from its stream before the 413; limit + one buffer = {M + B}')
        else:
            if status != 200:
                raise CheckFailure(f'{what}: body #{i} ({len(b)} bytes, earlier bodies: {history}) is within max_body_size but reading it gave {status!r}')
            if got != b:
                raise CheckFailure(f'{what}: body #{i} ({len(b)} bytes, earlier bodies: {history}) was accepted with other content ({len(got)} bytes, starts {got[:20]!r})')
            if len(b) > B and typ == 'BytesIO':
                raise CheckFailure(f'{what}: body #{i} larger than max_memfile_size is held in memory')
        if i:
            ctx.count('body_registered_after_a_%s_one_%s' % (history[-1], 'refused' if over else 'accepted'))
    ctx.count('sequence_of_bodies_on_one_request_object')
    ctx.nontrivial(case, sample=case)


@st.composite
def seq_st(draw):
    chunked = draw(st.booleans())
    B = draw(st.sampled_from([8, 33, 64, 256]))
    M = draw(st.sampled_from([None, 1, 20, 100, 1000]) | st.integers(0, 600))
    cands = [0, 1, B, B + 1, 3 * B] + ([M - 1, M, M + 1, M + B, M + B + 1, 3 * M + 2] if M is not None else [])
    size = st.sampled_from([c for c in cands if c >= 0]) | st.integers(0, 700)
    sizes = draw(st.lists(size, min_size=2, max_size=3))
    if not chunked:
        sizes.sort(reverse=True)          # see ASSUMPTIONS
    return {'seq': True, 'M': M, 'B': B, 'sizes': sizes, 'order': draw(st.sampled_from(['cl_first', 'stream_first'])),
            'chunks': draw(st.sampled_from([[3] * 2000, [B], [B + 1, 2 * B + 3], [100000]])) if chunked else None,
            'pattern': draw(st.one_of(st.just([]), st.lists(st.integers(1, 300), min_size=1, max_size=4)))}


@st.composite
def case_st(draw):
    kind = draw(st.sampled_from(['raw', 'raw', 'urlencoded', 'json', 'mp_text', 'mp_text', 'mp_file', 'mp_emptyfn', 'mp_epilogue', 'mp_preamble']))
    chunked = draw(st.booleans())
    B = draw(st.sampled_from([8, 33, 64, 256, 4096] if chunked else [1, 2, 8, 33, 64, 256, 4096]))
    M = draw(st.sampled_from([None, None, 1, 20, 100, 1000]) | st.integers(0, 600))
    cands = {0, 1, 2, B - 1, B, B + 1, 2 * B, 2 * B + 1, 3 * B}
    if M is not None:
        cands |= {M - 1, M, M + 1, M + B - 1, M + B, M + B + 1, 3 * M + 2, M + 2 * B}
    cands = sorted(c for c in cands if 0 <= c <= 20000)
    S = draw(st.sampled_from(cands) | st.integers(0, 700))
    if kind in ('mp_file', 'mp_emptyfn', 'mp_epilogue', 'mp_preamble'):
        # the header block of the part (~100 bytes) must fit the in-memory budget; the interesting side is file content >> B
        B = draw(st.sampled_from([128, 256, 4096]))
        S = draw(st.sampled_from([0, 1, B - 1, B, B + 1, 2 * B, 5 * B + 3]) | st.integers(0, 3 * B))
        M = draw(st.sampled_from([None, None, S + 150, S + 400, S, 20000]))
    elif kind.startswith('mp_') and M is not None:
        # multipart bodies carry ~100 bytes of framing: move M along so that the edges are still hit
        M = M + draw(st.sampled_from([0, 60, 101, 120]))
    case = {'kind': kind, 'S': S, 'M': M, 'B': B, 'nparts': draw(st.integers(1, 3)), 'exact_first': draw(st.integers(0, 3)) == 0,
            'cfg_form': draw(st.sampled_from(['dict', 'dict', 'namespace', 'class', 'class2', 'setup', 'setup_class2'])),
            'req_headers': draw(st.sampled_from([None, None, {'Connection': 'keep-alive'}, {'Connection': 'Keep-Alive'}, {'Connection': 'close'}, {'Expect': '100-continue'},
                                                 {'Connection': 'keep-alive', 'Keep-Alive': 'timeout=5'}, {'X-Forwarded-For': '10.0.0.1'}])),
            'chunks': None, 'pattern': draw(st.one_of(st.just([]), st.lists(st.integers(1, 9), min_size=1, max_size=5), st.lists(st.integers(1, 300), min_size=1, max_size=5)))}
    if kind == 'raw' and draw(st.integers(0, 9)) == 0:
        case['tempdir_broken'] = True
    if kind == 'raw':
        case['raw_ctype'] = draw(st.sampled_from([None, None, 'application/json', 'application/json; charset=utf-8', 'text/plain', 'application/x-www-form-urlencoded', 'application/xml', 'image/png']))
    if chunked:
        case['cl_with_chunked'] = draw(st.sampled_from([None, None, 'zero', 'total', 'limit', 'small']))
        case['chunks'] = draw(st.one_of(st.just([1]), st.just([3]), st.just([B]), st.just([B + 1, 2 * B + 3]), st.just([100000]), st.just([1, 100000]),
                                        st.lists(st.integers(1, 3 * B), min_size=1, max_size=6)))
        if case['chunks'] == [1] or case['chunks'] == [3]:
            case['chunks'] = case['chunks'] * 4000
        case['trailer_lines'] = draw(st.sampled_from([0, 0, 0, 1, 3, 60, 5000]))
        case['te'] = draw(st.sampled_from([None, None, 'Chunked', 'CHUNKED', 'gzip, Chunked', ' chunked ', 'chunked,', 'identity, chunked']))
        if draw(st.integers(0, 5)) == 0:
            case['neg_line'] = [draw(st.integers(0, 6)), draw(st.sampled_from([1, 16, 0x2710, 10**6]))]
    return case


def run(ctx):
    for name, case in load_corpus(ID):
        ctx.guarded(check_sequence if case.get('seq') else check_case, case)
        ctx.count('corpus')
    if ctx.shard == 0:
        # grid around the limits (property's own enumeration): every kind x framing x edge size
        for kind in ('mp_epilogue', 'mp_preamble'):
            for B in (128, 256):
                for M in (None, 300, 1000):
                    for S in (0, 1, 50, B, 700, 701, 2000, 20000):
                        for chunks in (None, [B], [100000]):
                            ctx.guarded(check_case, {'kind': kind, 'S': S, 'M': M, 'B': B, 'nparts': 1, 'chunks': chunks, 'pattern': []})
        for kind in ('raw', 'urlencoded', 'json', 'mp_text', 'mp_file', 'mp_emptyfn'):
            for M in (None, 20, 150):
                for B in (8, 64):
                    for chunks in (None, [3] * 400, [B], [4 * B + 1], [100000]):
                        base = {None: [0, 1, B - 1, B, B + 1, 3 * B], 20: [19, 20, 21, 20 + B, 21 + B, 90], 150: [149, 150, 151, 150 + B, 151 + B, 400]}[M]
                        for S in base:
                            for pattern in ([], [2, 5]):
                                ctx.guarded(check_case, {'kind': kind, 'S': S, 'M': M, 'B': B, 'nparts': 1, 'chunks': chunks, 'pattern': pattern})
                            if chunks is not None and kind == 'raw':
                                for cl in ('zero', 'limit', 'small'):
                                    ctx.guarded(check_case, {'kind': kind, 'S': S, 'M': M, 'B': B, 'nparts': 1, 'chunks': chunks, 'pattern': [], 'cl_with_chunked': cl})
        # chunked bodies within and over the limit followed by trailer sections of 0 .. 40000 short lines; negative size lines in front of every chunk
        for M in (100, 1000):
            for S in (10, M, M + 1, 10 * M):
                for B in (64, 256):
                    for tl in (0, 2, 500, 40000):
                        ctx.guarded(check_case, {'kind': 'raw', 'S': S, 'M': M, 'B': B, 'nparts': 1, 'chunks': [33], 'pattern': [], 'trailer_lines': tl})
                    for j in (0, 1, 2, 5):
                        for val in (1, 0x2710, 0xfffff):
                            ctx.guarded(check_case, {'kind': 'raw', 'S': S, 'M': M, 'B': B, 'nparts': 1, 'chunks': [50] * 300, 'pattern': [], 'neg_line': [j, val]})
        ctx.count('trailer_and_negative_size_grid')
        # every way of handing the limits to the application x request headers about the connection, far over the limit / just within, both framings
        for form in ('dict', 'namespace', 'class', 'class2', 'setup', 'setup_class2'):
            for rh in (None, {'Connection': 'keep-alive'}, {'Connection': 'KEEP-ALIVE'}, {'Connection': 'close'}, {'Expect': '100-continue'}):
                for S in (64, 65, 200000):
                    for chunks in (None, [1000]):
                        ctx.guarded(check_case, {'kind': 'raw', 'S': S, 'M': 64, 'B': 16, 'nparts': 1, 'chunks': chunks, 'pattern': [], 'cfg_form': form, 'req_headers': rh})
        ctx.count('config_form_and_connection_header_grid')
        # a body read raw through request.body under every declared media type, around both thresholds; the transfer coding spelled in every letter case
        for rc in ('application/json', 'application/json; charset=utf-8', 'text/plain', 'application/x-www-form-urlencoded', 'application/xml'):
            for M in (None, 1000):
                for S in (10, 64, 65, 300, 1000, 1001):
                    for chunks in (None, [33]):
                        ctx.guarded(check_case, {'kind': 'raw', 'S': S, 'M': M, 'B': 64, 'nparts': 1, 'chunks': chunks, 'pattern': [], 'raw_ctype': rc})
        for te in ('Chunked', 'CHUNKED', 'gzip, Chunked', ' chunked ', 'chunked,', 'cHuNkEd'):
            for S in (10, 100, 101, 5000):
                ctx.guarded(check_case, {'kind': 'raw', 'S': S, 'M': 100, 'B': 16, 'nparts': 1, 'chunks': [33], 'pattern': [], 'te': te})
        ctx.count('media_type_and_coding_spelling_grid')
        for ext in (10, 1000, 200000):
            for B in (16, 64):
                for M in (None, 64):
                    for S in (10, 500):
                        ctx.guarded(check_case, {'kind': 'raw', 'S': S, 'M': M, 'B': B, 'nparts': 1, 'chunks': [33], 'pattern': [], 'long_ext': ext})
        ctx.count('long_chunk_extension_grid')
        for S in (9, 65, 300):
            for chunks in (None, [7]):
                ctx.guarded(check_case, {'kind': 'raw', 'S': S, 'M': None, 'B': 8, 'nparts': 1, 'chunks': chunks, 'pattern': [], 'tempdir_broken': True})
                ctx.guarded(check_case, {'kind': 'raw', 'S': S, 'M': 1000, 'B': 64, 'nparts': 1, 'chunks': chunks, 'pattern': [3], 'tempdir_broken': True})
        for B in (64, 100, 256):
            for S in (1, 5, B, 5 * B):
                for chunks in (None, [33]):
                    for np_ in (2, 3):
                        ctx.guarded(check_case, {'kind': 'mp_text', 'S': S, 'M': None, 'B': B, 'nparts': np_, 'chunks': chunks, 'pattern': [], 'exact_first': True})
        ctx.count('limit_grid')
        # two / three bodies in turn on one request object, every combination of within / at / over the limit, both framings, both assignment orders
        for M, B in ((100, 32), (20, 8)):
            edge = (0, M - 1, M, M + 1, 5 * M)
            for chunks in (None, [9], [100000]):
                for order in (('cl_first', 'stream_first') if chunks is None else ('cl_first',)):
                    for s1 in edge:
                        for s2 in edge:
                            if chunks is None and s2 > s1:
                                continue          # see ASSUMPTIONS
                            ctx.guarded(check_sequence, {'seq': True, 'M': M, 'B': B, 'sizes': [s1, s2], 'order': order, 'chunks': chunks, 'pattern': []})
                    for sizes in ([M + 1, M + 1, M], [5 * M, 40, M + 1]) + (([M, 5 * M, M],) if chunks is not None else ()):
                        ctx.guarded(check_sequence, {'seq': True, 'M': M, 'B': B, 'sizes': sizes, 'order': order, 'chunks': chunks, 'pattern': [7]})
        ctx.count('body_sequence_grid')
    n = 2500 if ctx.tier == 'quick' else 25000
    ctx.hyp(case_st(), check_case, n)
    ctx.hyp(seq_st(), check_sequence, n // 5, label='sequence')


def replay(ctx, case):
    (check_sequence if case.get('seq') else check_case)(ctx, case)
