"""C18  Query strings and urlencoded forms decode to exactly what was sent."""
from hypothesis import strategies as st

from vlib.core import CheckFailure, load_corpus, fmt_exc
from vlib.wsgi import make_environ, call_app, FragStream

ID = 'C18'
LEVEL = 'exploration'
RULE = ('case = list of 0-8 (non-empty key, value) text pairs (alphabet rich in "=&+%; #" space, NUL, non-ASCII, repeated keys by '
        'drawing keys from a small per-case pool) + an encoding spelling per character (harness encoder: raw if unreserved, "+" or %20 '
        'for space, %XX upper/lower hex, optionally over-encoding unreserved characters) used as QUERY_STRING and as an '
        'application/x-www-form-urlencoded POST body (Content-Length or chunked, delivered in full or in short reads of 1-40 bytes; Content-Type with and without a charset parameter; every request is served twice on one application and the handler mutates what it got in between; before the first access to the form the handler may have read all / part of request.body, moved it to its end, or probed request.json; a Request.copy() taken after the form was read must decode the same pairs; wsgi.input = fragmenting stream, or a real io.BytesIO / io.BufferedReader standing at offset 0 or behind the bytes of an earlier message with a pipelined next request behind the body; the first 1-2 read() calls of wsgi.input may raise a transient error before any byte is consumed while forms / POST / params is first asked for, after which the handler retries through the same or another accessor: the retry delivers the sent pairs or raises again). Plus two threads decoding a 4-pair and a 300 / 1100-field query string or form at the same time under every single-preemption schedule of the small one (deterministic scheduler. Oracle: Request.query / Request.forms == expected map '
        '(single -> str, repeated -> list in submission order), Request.params == {**query, **forms}, parse_qsl() list mode == the pair list. '
        'Totality: parse_qsl(any text) and Request.query on any QUERY_STRING return without raising. Non-trivial = a repeated key, or a key/value '
        'containing one of "=&+%;" / space / non-ASCII / empty value; distinct by case hash.')
ASSUMPTIONS = ['encoder is harness code (own percent-encoding, not urllib)', 'keys are non-empty (stated by the property)',
               'stray "&&", "k" without "=", "=v" appear only in the totality part (not produced by URL-encoding pairs)']

UNRESERVED = set('ABCDEFGHIJKLMNOPQRSTUVWXYZabcdefghijklmnopqrstuvwxyz0123456789-._~')
OPTIONAL_RAW = set("*!'()/:@,$")      # characters browsers / urllib.quote variants leave unencoded in a query component

_special = st.sampled_from(list('=&+%; #?/\\"\'<>') + ['\0', '\r', '\n', 'é', '日', '€', '\U0001F600', '%41', '%zz', '%', '+ +', 'a=b&c', '&&', '=='])
_tok = st.one_of(_special, st.text(max_size=4), st.sampled_from(['a', 'b', 'k', '1', 'key', 'x y']))
TEXT = st.lists(_tok, max_size=5).map(''.join)
KEY = TEXT.filter(lambda s: len(s) > 0) | st.sampled_from(['a', 'b', 'k'])


CTYPES = ['application/x-www-form-urlencoded'] * 4 + ['application/x-www-form-urlencoded; charset=utf-8', 'application/x-www-form-urlencoded; charset=UTF-8',
          'application/x-www-form-urlencoded; charset=ISO-8859-1', 'application/x-www-form-urlencoded;charset=latin1', 'application/x-www-form-urlencoded; charset=x-user-defined',
          'application/x-www-form-urlencoded; charset="utf-8"', 'APPLICATION/X-WWW-FORM-URLENCODED', 'application/x-www-form-urlencoded; boundary=x', 'text/plain', '']


def enc_text(s, style):
    """style: list of ints (cycled) choosing the spelling of each character."""
    out = []
    i = 0
    for ch in s:
        c = style[i % len(style)] if style else 0
        i += 1
        if ch == ' ':
            out.append('+' if c % 2 == 0 else '%20')
            continue
        if ch in UNRESERVED and c % 7 != 6:
            out.append(ch)
            continue
        if ch in OPTIONAL_RAW and c % 3 == 1:
            out.append(ch)
            continue
        fmt = '%%%02X' if c % 4 < 2 else '%%%02x'
        out.append(''.join(fmt % b for b in ch.encode('utf8')))
    return ''.join(out)


def encode_pairs(pairs, style):
    return '&'.join(enc_text(k, style) + '=' + enc_text(v, style[1:] + style[:1] if style else style) for k, v in pairs)


def expected_map(pairs):
    d = {}
    seen = {}
    for k, v in pairs:
        if k in seen:
            seen[k].append(v)
            d[k] = seen[k]
        else:
            seen[k] = [v]
            d[k] = v
    return {k: (list(v) if isinstance(v, list) else v) for k, v in d.items()}


@st.composite
def case_st(draw):
    keys = draw(st.lists(KEY, min_size=1, max_size=3))
    q = draw(st.lists(st.tuples(st.sampled_from(keys), TEXT), max_size=8))
    f = draw(st.lists(st.tuples(st.sampled_from(keys) | KEY, TEXT), max_size=6))
    style = draw(st.lists(st.integers(0, 83), min_size=1, max_size=7))
    return {'query': [list(p) for p in q], 'form': [list(p) for p in f], 'style': style,
            'chunked': draw(st.booleans()), 'method': draw(st.sampled_from(['POST', 'PUT'])),
            'ctype': draw(st.sampled_from(CTYPES)),
            'pattern': draw(st.one_of(st.just([]), st.lists(st.integers(1, 9), min_size=1, max_size=4), st.lists(st.integers(1, 40), min_size=1, max_size=4))),
            'copy': draw(st.integers(0, 4)) == 0,
            'requery': draw(st.sampled_from([None, None, None, encode_pairs(REQUERY_PAIRS, [0, 1])])),
            'pre': draw(st.sampled_from([None, None, None, 'read_all', 'seek_end', 'json', ['read', 1], ['read', 7], ['read', 10000]])),
            'stream': draw(st.sampled_from([None, None, None, 'bytesio', 'bytesio_at_offset', 'bufferedreader_at_offset'])),
            'fault': draw(st.sampled_from([None] * 5 + [{'n': n_, 'exc': e_, 'first': a_, 'retry': b_} for n_ in (1, 2) for e_ in ('TimeoutError', 'OSError')
                                                        for a_ in ACCESSORS for b_ in ACCESSORS]))}


REQUERY_PAIRS = [('z', '1'), ('k', 'new value'), ('z', '2')]
ACCESSORS = ('forms', 'POST', 'params')
PREFIX = b'POST /previous HTTP/1.1\r\nContent-Type: application/x-www-form-urlencoded\r\nContent-Length: 9\r\n\r\nprev=body'
NEXT = b'POST /next HTTP/1.1\r\nContent-Length: 8\r\n\r\nnext=one'


def make_stream(case, wire):
    """wsgi.input for the bytes `wire`: the fragmenting stream, or a real in-memory / buffered stream as a server that keeps the raw connection
    bytes in one buffer hands it over (positioned at the first byte of the body, an earlier message in front, the next one behind)."""
    import io
    kind = case.get('stream')
    if not kind:
        stream = FragStream(wire, case.get('pattern') or [])
    elif kind == 'bytesio':
        stream = io.BytesIO(wire + NEXT)
    else:
        raw = io.BytesIO(PREFIX + wire + NEXT)
        stream = raw if kind == 'bytesio_at_offset' else io.BufferedReader(raw)
        stream.seek(len(PREFIX))
    if case.get('fault'):
        stream = FlakyStream(stream, case['fault']['n'], {'TimeoutError': TimeoutError, 'OSError': OSError}[case['fault']['exc']])
    return stream


class FlakyStream:
    """wsgi.input whose first `failures` read() calls raise a transient error; nothing is consumed by a failed call."""

    def __init__(self, inner, failures, exc):
        self.inner, self.failures, self.exc, self.raised = inner, failures, exc, 0

    def read(self, n=-1):
        if self.failures:
            self.failures -= 1
            self.raised += 1
            raise self.exc('transient read failure injected by the harness')
        return self.inner.read(n)


def _plain(d):
    return {k: (list(v) if isinstance(v, list) else v) for k, v in dict(d).items()}


def check_case(ctx, case):
    import ombott
    from ombott.request_pkg.helpers import parse_qsl
    q = [tuple(p) for p in case['query']]
    f = [tuple(p) for p in case['form']]
    qs = encode_pairs(q, case['style'])
    body = encode_pairs(f, case['style'][::-1]).encode('ascii')
    # (1) low-level scanner, list mode
    for pairs, s in ((q, qs), (f, body.decode('ascii'))):
        try:
            got = parse_qsl(s)
            acc = []
            parse_qsl(s, append=acc.append)
        except Exception as e:
            raise CheckFailure(f'parse_qsl({s!r}) raised {fmt_exc(e)}')
        if got != list(pairs) or acc != list(pairs):
            raise CheckFailure(f'parse_qsl({s!r}) = {got!r} / append mode {acc!r}, sent pairs {pairs!r}')
    # (2) through a request -- served twice on one application: what the handler got is mutated in place after the first
    # request (lists sorted / extended, entries added), the identical second request must decode to the same pairs again
    # (a configured max_body_size that the body just fits - equal or one above - has no say)
    app = ombott.Ombott({'max_body_size': len(body) + case['style'][0] % 2} if case['style'][0] % 3 == 0 else None)
    seen = {}

    def h():
        rq = app.request
        fault = case.get('fault')
        if fault:
            # the stream fails while the form is first asked for; the handler catches that and asks again, alternating the two accessors.
            # An attempt may raise again; one that returns must return the sent pairs (compared below, with every other view)
            for attempt in range(fault['n'] + 2):
                name = fault['first'] if attempt % 2 == 0 else fault['retry']
                try:
                    got = _plain(getattr(rq, name))
                except Exception:
                    seen['fault_raised'] = seen.get('fault_raised', 0) + 1
                    continue
                seen['retry_' + name] = got
                break
            else:
                seen['gave_up'] = True
                return 'ok'
        # what happened to the body stream before the form is first asked for (a signature check, a logger, a JSON probe) must not matter
        pre = case.get('pre')
        if pre == 'read_all':
            rq.body.read()
        elif pre == 'seek_end':
            rq.body.seek(0, 2)
        elif pre == 'json':
            _ = rq.json
        elif isinstance(pre, list):
            rq.body.read(pre[1])
        seen['query'] = _plain(rq.query)
        seen['forms'] = _plain(rq.forms)
        seen['params'] = _plain(rq.params)
        seen['GET'] = _plain(rq.GET)
        seen['POST'] = _plain(rq.POST)
        if case.get('requery') is not None:
            # the handler replaces the query string through the request object after every view of it was read: all views follow
            rq['QUERY_STRING'] = case['requery']
            seen['query2'] = _plain(rq.query)
            seen['GET2'] = _plain(rq.GET)
            seen['params2'] = _plain(rq.params)
            seen['forms2'] = _plain(rq.forms)
            return 'ok'
        if case.get('copy'):
            # a copy of the request taken after the original has parsed its form: the copy decodes the same pairs
            c = rq.copy()
            seen['copy_forms'] = _plain(c.forms)
            seen['copy_query'] = _plain(c.query)
            seen['copy_params'] = _plain(c.params)
            return 'ok'
        for d in (rq.query, rq.forms, rq.params):
            for k, v in list(d.items()):
                if isinstance(v, list):
                    v.append('mutated-by-handler')
                    v.reverse()
            d['added-by-handler'] = 'x'
        return 'ok'
    app.route('/q', method=['POST', 'PUT'], callback=h)
    ctype = case.get('ctype', 'application/x-www-form-urlencoded')
    headers = {'Content-Type': ctype} if ctype else {}
    eq, ef = expected_map(q), expected_map(f)
    want = {'query': eq, 'GET': eq, 'forms': ef, 'POST': ef, 'params': {**eq, **ef}}
    if case.get('requery') is not None:
        from ombott.request_pkg.helpers import parse_qsl as _pq
        eq2 = expected_map(REQUERY_PAIRS)
        want.update({'query2': eq2, 'GET2': eq2, 'params2': {**eq2, **ef}, 'forms2': ef})
        ctx.count('query_string_replaced_after_it_was_read')
    if case.get('copy') and case.get('requery') is None:
        want.update({'copy_forms': ef, 'copy_query': eq, 'copy_params': {**eq, **ef}})
        ctx.count('request_copied_after_the_form_was_read')
    for reqno in (0, 1):
        if case['chunked']:
            from vlib.encoders import encode_chunked
            wire, _ = encode_chunked(body, [11, 3, 47, 26, 250], [{'upper': bool(case['style'][0] % 2), 'zeros': case['style'][0] % 3}])      # chunk sizes with hex letters in either case
            env = make_environ(case['method'], '/q', qs=qs, stream=make_stream(case, wire), content_length=None, headers=dict(headers, **{'Transfer-Encoding': ['chunked', 'Chunked', 'CHUNKED', 'gzip, chunked', ' chunked '][case['style'][-1] % 5]}))
        else:
            # the form arrives as a socket delivers it: read(n) may return fewer bytes than asked for
            env = make_environ(case['method'], '/q', qs=qs, stream=make_stream(case, body), content_length=len(body), headers=headers)
        seen.clear()
        r = call_app(app, env)
        if r.escaped is not None or r.code != 200:
            raise CheckFailure(f'request {reqno} with query {qs!r} and form body {body!r} (Content-Type {ctype!r}) answered {r.status!r} {r.errors[-500:]} '
                               f'{fmt_exc(r.escaped) if r.escaped else ""}')
        if seen.get('gave_up'):
            ctx.count('every_retry_after_the_read_fault_raised_again')
            continue
        for name in ACCESSORS:
            if 'retry_' + name in seen and seen['retry_' + name] != want[name]:
                raise CheckFailure(f'request {reqno}: after {seen.get("fault_raised", 0)} failed attempt(s) (wsgi.input.read raised {case["fault"]["exc"]} before any byte was consumed; accessors tried: '
                                   f'{case["fault"]["first"]}, then {case["fault"]["retry"]}) request.{name} returned without raising but differs for query {qs!r} / body {body!r}:\n got  {seen["retry_" + name]!r}\n want {want[name]!r}')
        for k, w in want.items():
            if seen[k] != w:
                raise CheckFailure(f'request {reqno}: request.{k} differs for query {qs!r} / body {body!r} (Content-Type {ctype!r}, wsgi.input kind {case.get("stream") or "fragmenting"}'
                                   f'{", read fault " + repr(case["fault"]) if case.get("fault") else ""}):\n got  {seen[k]!r}\n want {w!r}')
    if 'charset' in ctype.lower():
        ctx.count('content_type_with_charset')
    if case.get('pre'):
        ctx.count('body_stream_moved_before_first_form_access')
    if case.get('pattern') and not case.get('stream'):
        ctx.count('form_body_delivered_in_short_reads')
    if case.get('stream'):
        ctx.count('wsgi_input_is_a_real_' + case['stream'])
    if case.get('fault'):
        ctx.count('read_fault_on_first_form_access_then_retry')
    allp = q + f
    keys = [k for k, _ in q], [k for k, _ in f]
    rep = any(len(set(ks)) < len(ks) for ks in keys)
    spec = any(c in (k + v) for k, v in allp for c in '=&+%; ') or any(ord(c) > 127 for k, v in allp for c in k + v)
    blank = any(v == '' for _, v in allp)
    for flag, name in ((rep, 'repeated_key'), (spec, 'separator_or_nonascii'), (blank, 'blank_value'), (case['chunked'], 'chunked'),
                       (any(len(set(ks)) < len(ks) - 1 for ks in keys), 'key_three_times'), (bool(set(keys[0]) & set(keys[1])), 'key_in_query_and_form')):
        if flag:
            ctx.count(name)
    if rep or spec or blank:
        ctx.nontrivial(case, sample={'query_string': qs, 'body': body.decode(), 'pairs': allp[:6]})


RAW = st.one_of(
    st.lists(st.sampled_from(list('ab=&+%;1 é\0') + ['%4', '%41', '%zz', '%e9', '%FF', '%C3%A9']), max_size=14).map(''.join),
    st.text(max_size=20),
    st.sampled_from(['%', '&&', '==', '&', '=', 'a&', 'a=', '=a', '&=&', 'a==b', 'a=b&', '&a=b', 'a&b', '%&%=%', '+', '%%', 'a=%', 'a%=1', '=&=', ';', 'a;b=1']))


def check_raw(ctx, case):
    import ombott
    from ombott.request_pkg.helpers import parse_qsl
    s = case['raw']
    try:
        out = parse_qsl(s)
        d = {}
        parse_qsl(s, setitem=d.__setitem__)
    except Exception as e:
        raise CheckFailure(f'parse_qsl({s!r}) raised: {fmt_exc(e)}')
    if not isinstance(out, list) or any(not (isinstance(p, tuple) and len(p) == 2 and isinstance(p[0], str) and isinstance(p[1], str)) for p in out):
        raise CheckFailure(f'parse_qsl({s!r}) returned {out!r}: not a list of (str, str)')
    # dict mode agrees with list mode (lists in order) -- internal consistency of the two collection modes
    if d != expected_map(out):
        raise CheckFailure(f'parse_qsl({s!r}): dict mode {d!r} disagrees with list mode {out!r}')
    try:
        s.encode('latin1')
    except UnicodeError:
        ctx.count('raw_scanner_only')
    else:
        rq = ombott.Request(make_environ('GET', '/', qs=s))
        try:
            got = _plain(rq.query)
        except Exception as e:
            raise CheckFailure(f'Request.query raised on QUERY_STRING {s!r}: {fmt_exc(e)}')
        if got != d:
            raise CheckFailure(f'Request.query {got!r} != parse_qsl dict mode {d!r} for {s!r}')
    ctx.count('raw_total')
    if any(x in s for x in ('%', '&&', '==')) or s.endswith(('&', '=')):
        ctx.count('raw_malformed_escape_or_separator')
        ctx.nontrivial('raw:' + s)


def check_threaded(ctx, case):
    """Two threads decode different query strings / forms at the same time (one of them with several hundred distinct field names, more than any
    bounded memo holds): every single-preemption schedule of the small request, and a stride of the large one."""
    import ombott
    from vlib.sched import Scheduler, BIG
    from checks.c08_threads import relevant
    from vlib.encoders import encode_chunked
    small = [('a', '1'), ('b b', 'x&y'), ('a', 'é'), ('k%', '')]
    many = [('f%d' % i, 'v%d' % i) for i in range(case['n'])] + [('a', 'last')]
    qs_small, qs_many = encode_pairs(small, [0, 3]), encode_pairs(many, [1])

    import threading
    app = ombott.Ombott()
    box = {}

    def h():
        rq = app.request
        box[threading.get_ident()] = _plain(rq.query if case['via'] == 'query' else rq.forms)
        return 'ok'
    app.route('/t', method=['GET', 'POST'], callback=h)

    def parse(pairs, qs, via):
        def fn():
            if via == 'query':
                env = make_environ('GET', '/t', qs=qs)
            else:
                env = make_environ('POST', '/t', body=qs.encode('ascii'), headers={'Content-Type': 'application/x-www-form-urlencoded'})
            r = call_app(app, env)
            if r.escaped is not None or r.code != 200:
                raise CheckFailure(f'answered {r.status!r} {r.errors[-500:]} {fmt_exc(r.escaped) if r.escaped else ""}')
            return box.pop(threading.get_ident())
        return fn
    via = case['via']
    fa, fb = parse(small, qs_small, via), parse(many, qs_many, via)
    want = [expected_map(small), expected_map(many)]
    fa(), fb(), fa()          # whatever the decoder remembers between calls is warm

    def run(schedule):
        sched = Scheduler([fa, fb], schedule, relevant)
        res = sched.run()
        for i in (0, 1):
            if sched.errors[i] is not None:
                raise CheckFailure(f'thread {i} decoding its {via} ({"4 pairs" if i == 0 else str(len(many)) + " distinct field names"}) raised under schedule {schedule}: '
                                   f'{fmt_exc(sched.errors[i])[-600:]}')
            if res[i] != want[i]:
                raise CheckFailure(f'thread {i}: request.{via} decoded concurrently differs from what was sent under schedule {schedule}: {str(res[i])[:200]!r}')
        ctx.evals += 1
        return sched.yields
    ya, yb = run([[0, BIG], [1, BIG]])
    for k in range(0, ya + 1):
        run([[0, k], [1, BIG], [0, BIG]])
        ctx.nontrivial(f'thr:{via}:{case["n"]}:a{k}')
    for k in range(0, yb + 1, max(1, yb // 150)):
        run([[1, k], [0, BIG], [1, BIG]])
        ctx.nontrivial(f'thr:{via}:{case["n"]}:b{k}')
    ctx.count('threaded_single_preemption_schedules', ya + 1 + len(range(0, yb + 1, max(1, yb // 150))))


def run(ctx):
    for name, case in load_corpus(ID):
        ctx.guarded(check_threaded if 'threaded' in case else check_raw if 'raw' in case else check_case, case)
        ctx.count('corpus')
    if ctx.shard == 0:
        for via in ('query', 'forms'):
            for nkeys in (300, 1100):
                ctx.guarded(check_threaded, {'threaded': True, 'via': via, 'n': nkeys})
        # the body stream moved in every way before the first access to the form
        for chunked in (False, True):
            for pre in (None, 'read_all', ['read', 7]):
                ctx.guarded(check_case, {'query': [['q', '1'], ['q', '2']], 'form': [['first', 'one two'], ['k', 'é&='], ['first', '2']], 'style': [1, 1, 2], 'chunked': chunked,
                                         'method': 'POST', 'ctype': 'application/x-www-form-urlencoded', 'pre': pre, 'copy': True})
        # a name that occurs several times in the query AND in the form (and 0-3 times each); the query string replaced after it was read
        for nq in (0, 1, 2, 3):
            for nf in (0, 1, 2, 3):
                for chunked in (False, True):
                    base_case = {'query': [['a', 'q%d' % i] for i in range(nq)] + [['only_q', '1']], 'form': [['a', 'f%d' % i] for i in range(nf)] + [['only_f', '2']], 'style': [0, 1, 2],
                                 'chunked': chunked, 'method': 'POST', 'ctype': 'application/x-www-form-urlencoded'}
                    ctx.guarded(check_case, base_case)
                    ctx.guarded(check_case, dict(base_case, requery=encode_pairs(REQUERY_PAIRS, [0, 1])))
        for pattern in ([1], [7], [16], [37], [3, 1]):
            for chunked in (False, True):
                ctx.guarded(check_case, {'query': [['q', '1']], 'form': [['name', 'J%'], ['k', 'é&='], ['name', '2'], ['last', 'x' * 30]], 'style': [0, 1, 2], 'chunked': chunked,
                                         'method': 'POST', 'ctype': 'application/x-www-form-urlencoded', 'pattern': pattern})
        for pre in (None, 'read_all', 'seek_end', 'json', ['read', 1], ['read', 7], ['read', 10000]):
            for chunked in (False, True):
                ctx.guarded(check_case, {'query': [['q', '1']], 'form': [['first', 'one two'], ['k', 'é&='], ['first', '2']], 'style': [0, 1, 2], 'chunked': chunked,
                                         'method': 'POST', 'ctype': 'application/x-www-form-urlencoded', 'pre': pre})
        # wsgi.input a real in-memory / buffered stream at offset 0 or behind earlier bytes; a read fault on the first form access, then a retry
        grid_case = {'query': [['q', '1']], 'form': [['name', 'J\u00fcrgen & S\u00f8n'], ['tag', 'x'], ['tag', ''], ['k=&+%', '\u20ac 100%']], 'style': [1, 1, 2],
                     'method': 'POST', 'ctype': 'application/x-www-form-urlencoded'}
        for kind in ('bytesio', 'bytesio_at_offset', 'bufferedreader_at_offset'):
            for chunked in (False, True):
                for pre in (None, 'read_all', ['read', 7]):
                    for form in (grid_case['form'], []):
                        ctx.guarded(check_case, dict(grid_case, form=form, chunked=chunked, stream=kind, pre=pre))
        for nfail in (1, 2):
            for first in ACCESSORS:
                for retry in ACCESSORS:
                    for chunked in (False, True):
                        for kind in (None, 'bytesio_at_offset'):
                            ctx.guarded(check_case, dict(grid_case, chunked=chunked, stream=kind, fault={'n': nfail, 'exc': 'TimeoutError' if nfail == 1 else 'OSError', 'first': first, 'retry': retry}))
    n = 2000 if ctx.tier == 'quick' else 25000
    ctx.hyp(case_st(), check_case, n, label='pairs')
    ctx.hyp(RAW.map(lambda s: {'raw': s}), check_raw, n, label='raw')


def replay(ctx, case):
    if 'threaded' in case:
        return check_threaded(ctx, case)
    (check_raw if 'raw' in case else check_case)(ctx, case)
