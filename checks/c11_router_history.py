"""C11  The router after any edit history equals a freshly built router."""
import itertools

from hypothesis import strategies as st

from vlib import rules as R
from vlib.core import CheckFailure, load_corpus, fmt_exc
from vlib.wsgi import make_environ, call_app

ID = 'C11'
LEVEL = 'exploration'
RULE = ('case = a rule universe (4-9 rule ASTs with shared prefixes, wildcard siblings, filter-conflicting siblings; hook rules = the rules, their '
        'truncations at segment and mid-literal positions, and "/") + a history of 1-25 operations: add(rule, methods, name?, overwrite?) | remove(rule) | remove(<Route object returned by an earlier add(), possibly stale>) | '
        'remove(name=) | remove(prefix*) | add_hook(rule, SIMPLE|PARTIAL) | remove_hook(rule), generated as one shrinkable value (model-based stateful search); '
        'plus exhaustive enumeration of all operation sequences to depth 4 (5 in thorough) over a fixed 21-operation alphabet and to depth 5 (6) over an 11-operation alphabet in which two filters compete for one position; a first registration refused by the edited router must be refused by a router freshly built from the survivors too. Model: surviving routes keyed '
        'by pattern with METHOD -> (tag, registering rule), route names, hooks keyed by pattern; an operation that raises changes nothing; known-must-reject '
        'cases (taken name, taken method) are asserted. Oracle after EVERY step, for every probe path (instantiations of all universe rules and near misses) x '
        '{GET, POST}: resolve() on the edited router == resolve() on a router freshly built from the survivors in acceptance order (handler tag, kwargs, 405 '
        'Allow, SIMPLE hook sequence as (tag, position)); independently the selected route equals the reference matcher over the survivors and the hook '
        'sequence equals "hooks whose pattern is a prefix of the matched route pattern, outermost first, position = path consumed by that prefix"; '
        'router[name], router[{rule}], router.routes and router.hooks agree with the model; every fifth step the history so far is also replayed through '
        'Ombott.__call__ and the hook invocation log (tag, path prefix) is compared. Hooks lying under a removed prefix* are unjudged (counted) until a slot is written again (that slot is then known); plus one large history in which 160 routes with distinct filter expressions come and go around a surviving filtered route. '
        'Non-trivial = a removal after >= 2 accepted adds sharing a prefix, any hook operation, or a re-add after a removal; distinct by (universe, history).')
ASSUMPTIONS = ['reference matcher vlib/rules.py is trusted', 'prefix-wildcard removal is specified for routes only: hooks under the prefix are not judged',
               'whether a first registration is accepted by the tree (filter conflicts) is observed, not predicted; must-reject cases (taken name / method) are predicted',
               'histories are generated as plain operation lists (so that they shrink as one value and replay without Hypothesis), not through the RuleBasedStateMachine API']

QUICK_SHARDS = 8
NAMEPOOL = ['n1', 'n2', 'n3']
METHS = ['GET', 'POST', 'PUT']


def bare(ast):
    return ''.join(s[1] if s[0] == 'lit' else ('\r' + (str(s[4]) if s[2] == 'rex' else '')) for s in R.merge(ast))[1:]


def sig(ast):
    a = R.merge(ast)
    return tuple((s[2], s[3] if s[2] in ('re', 'rex') else (R.following_literal(a, i) if s[2] == 'path' else None)) for i, s in enumerate(a) if s[0] == 'w')


def truncations(ast):
    """Prefixes of a rule at segment boundaries and inside literals (as ASTs)."""
    a = R.merge(ast)
    out = []
    for k in range(1, len(a) + 1):
        pre = [list(s) for s in a[:k]]
        out.append(pre)
        if pre[-1][0] == 'lit' and len(pre[-1][1]) > 1:
            for cut in range(1, len(pre[-1][1])):
                p2 = [list(s) for s in pre]
                p2[-1][1] = p2[-1][1][:cut]
                out.append(p2)
    return [p for p in out if R.legal(p) and R.renderable(p)]


@st.composite
def case_st(draw):
    base = draw(R.rule_st(5))
    uni = [base]
    for _ in range(draw(st.integers(3, 8))):
        src = draw(st.sampled_from(uni))
        uni.append(draw(st.one_of(R.derived_rule_st(src), R.derived_rule_st(src), R.derived_rule_st(src), R.rule_st(3), R.rule_st(3, rex=True))))
    uni = [R.merge(a) for a in uni if R.legal(a) and R.renderable(a)]
    hookable = [[['lit', '/']]]
    for a in uni:
        hookable.extend(truncations(a))
    nrule = len(uni)
    ops = []
    for _ in range(draw(st.integers(1, 25))):
        kind = draw(st.sampled_from(['add', 'add', 'add', 'add', 'remove', 'remove', 'remove_name', 'remove_prefix', 'add_hook', 'add_hook', 'remove_hook', 'remove_obj']))
        ch = draw(st.lists(st.integers(0, 30), max_size=2))
        if kind == 'add':
            ops.append({'op': 'add', 'rule': draw(st.integers(0, nrule - 1)), 'methods': draw(st.lists(st.sampled_from(METHS), min_size=0 if draw(st.integers(0, 9)) == 0 else 1, max_size=2, unique=True)),      # (rarely: a route registered with no method yet)
                        'name': draw(st.sampled_from([None, None] + NAMEPOOL)), 'overwrite': draw(st.sampled_from([False, False, True])), 'choice': ch,
                        'mspell': draw(st.sampled_from([0, 0, 0, 1, 2, 3]))})      # the verb spelled upper / lower / capitalised / mixed (names are case-insensitive)
        elif kind == 'remove':
            ops.append({'op': 'remove', 'rule': draw(st.integers(0, nrule - 1)), 'choice': ch})
        elif kind == 'remove_obj':
            ops.append({'op': 'remove_obj', 'handle': draw(st.integers(0, 5))})
        elif kind == 'remove_name':
            ops.append({'op': 'remove_name', 'name': draw(st.sampled_from(NAMEPOOL))})
        elif kind == 'remove_prefix':
            ops.append({'op': 'remove_prefix', 'hook': draw(st.integers(0, len(hookable) - 1)), 'choice': ch})
        elif kind == 'add_hook':
            ops.append({'op': 'add_hook', 'hook': draw(st.integers(0, len(hookable) - 1)), 'type': draw(st.sampled_from([0, 0, 0, 1])), 'choice': ch})
        else:
            ops.append({'op': 'remove_hook', 'hook': draw(st.integers(0, len(hookable) - 1)), 'choice': ch})
    paths = []
    for a in uni:
        for _ in range(2):
            paths.append(draw(R.path_for(a)))
    for _ in range(4):
        paths.append(draw(R.path_for(draw(st.sampled_from(hookable)))))
    return {'universe': uni, 'hookable': hookable, 'spell': draw(st.integers(0, 1)), 'ops': ops, 'paths': sorted(set(paths))}


# ------------------------------------------------------------------ model
class Model:
    def __init__(self):
        self.routes = {}     # bare -> {'ast', 'sig', 'methods': {M: {'tag', 'ast', 'choice'}}, 'order'}
        self.names = {}      # name -> bare
        self.hooks = {}      # bare -> {'ast', 'sig', 'pair': [simple tag, partial tag], 'order', 'unjudged'}
        self.clock = 0
        self.removed_once = set()
        self.flags = set()

    def tick(self):
        self.clock += 1
        return self.clock


class Tags:
    """Handlers and hooks are real functions carrying their tag."""

    def __init__(self, log):
        self.log = log
        self.h = {}
        self.k = {}

    def handler(self, tag):
        if tag not in self.h:
            def f(**kw):
                return tag
            f.tag = tag
            self.h[tag] = f
        return self.h[tag]

    def hook(self, tag):
        if tag not in self.k:
            log = self.log

            def f(prefix, *a):
                log.append((tag, prefix))
            f.tag = tag
            self.k[tag] = f
        return self.k[tag]


def build_fresh(model, tags, spell):
    """A router freshly built from the survivors, in acceptance order."""
    from ombott.router.radirouter import RadiRouter
    fresh = RadiRouter()
    items = [(v['order'], 'r', k, v) for k, v in model.routes.items()] + [(v['order'], 'h', k, v) for k, v in model.hooks.items() if any(v['known'])]
    for _, kind, key, v in sorted(items, key=lambda t: t[0]):
        if kind == 'r':
            if not v['methods']:
                fresh.add(R.render(v['ast'], (), spell), [], tags.handler('none'))          # a route that has no method (yet): it exists and answers 405
            for M, m in v['methods'].items():
                fresh.add(R.render(m['ast'], m['choice'], spell), M, tags.handler(m['tag']))
        else:
            text = R.render(v['ast'], v['choice'], spell)
            for t, tag in enumerate(v['pair']):
                if tag is not None and v['known'][t]:
                    fresh.add_hook(text, tags.hook(tag), hook_type=t)
    for name, key in model.names.items():
        v = model.routes[key]
        if not v['methods']:
            fresh.add(R.render(v['ast'], (), spell), [], tags.handler('none'), name, overwrite=True)
            continue
        M, m = next(iter(v['methods'].items()))
        fresh.add(R.render(m['ast'], m['choice'], spell), M, tags.handler(m['tag']), name, overwrite=True)
    return fresh


def observe(router, path, method, unjudged):
    try:
        end_point, err = router.resolve(path, [method])
    except Exception as e:
        return ('raised', type(e).__name__, str(e)[:200])
    if end_point is None:
        return ('err', err[0], err[2] if err[0] == 405 else None)
    meth, params, hooks = end_point
    hs = []
    for pos, pair in hooks:
        if pair and pair[0] is not None and getattr(pair[0], 'tag', None) not in unjudged:
            hs.append((pair[0].tag, pos))
    return ('ok', getattr(meth.handler, 'tag', None), params, tuple(hs))


def consumed_positions(ast, path):
    """Map: length k of a pattern prefix -> index in the stripped path consumed by it (None if the rule does not match)."""
    a = R.merge(ast)
    first = a[0][1][1:]
    segs = ([['lit', first]] if first else []) + a[1:]
    b = R.match(a, path, True)
    if b is None:
        return None
    pos = {0: 0}
    k = i = 0
    wi = 0
    for s in segs:
        if s[0] == 'lit':
            for _ in s[1]:
                k += 1
                i += 1
                pos[k] = i
        else:
            i += len(b[wi][1])
            wi += 1
            k += 1
            pos[k] = i
            if s[2] == 'rex':
                for _ in str(s[4]):          # the selector characters are pattern text that consumes nothing of the path
                    k += 1
                    pos[k] = i
    return pos


def expected(model, path, method):
    """Independent expectation from the model and the reference matcher (None = verdict hangs on the empty-binding policy)."""
    keys = list(model.routes)
    asts = [model.routes[k]['ast'] for k in keys]
    if any(s[0] == 'w' and s[2] == 'rex' for a in asts + [h['ast'] for h in model.hooks.values()] for s in a):
        return None         # rex wildcards: only the comparison with the freshly built router applies (their selector fallback is undocumented)
    sp = path.strip('/')
    strict, lenient, agreed = R.verdict(asts, sp)
    if not agreed or (strict is None) != (lenient is None):
        return None
    if strict is None:
        return ('err', 404, None)
    key = keys[strict[0]]
    v = model.routes[key]
    if method not in v['methods']:
        return ('err', 405, ','.join(sorted(v['methods'])))
    m = v['methods'][method]
    b = R.match(m['ast'], sp, False)
    if b is None:
        return None
    posmap = consumed_positions(v['ast'], sp)
    hs = []
    for hk, hv in model.hooks.items():
        if not hv['known'][0] or hv['pair'][0] is None:
            continue
        if key.startswith(hk) and len(hk) in posmap:
            hs.append((len(hk), hv['pair'][0], posmap[len(hk)]))
    hs.sort()
    return ('ok', m['tag'], R.named(b), tuple((t, p) for _, t, p in hs))


# ------------------------------------------------------------------ running a history
def run_history(ctx, case, every_step=True, wsgi=True):
    from ombott.router.radirouter import RadiRouter
    uni, hookable, spell = case['universe'], case['hookable'], case['spell']
    model = Model()
    log = []
    tags = Tags(log)
    router = RadiRouter()
    tagno = 0
    accepted_adds = 0
    handles = []
    for si, op in enumerate(case['ops']):
        what = f'step {si} {op}'
        kind = op['op']
        if kind == 'add':
            ast = uni[op['rule'] % len(uni)]
            text = R.render(ast, op['choice'], spell)
            key, sg = bare(ast), sig(ast)
            tagno += 1
            tag = 'h%d' % tagno
            try:
                ms = op.get('mspell', 0)
                spelled = [[m, m.lower(), m.capitalize(), m[:1].lower() + m[1:]][ms] for m in op['methods']]
                handle = router.add(text, spelled[0] if (ms == 3 and len(spelled) == 1) else spelled, tags.handler(tag), op['name'], overwrite=op['overwrite'])
                ok, exc = True, None
            except Exception as e:
                ok, exc = False, e
            ent = model.routes.get(key)
            must_reject = False
            if op['name'] and not op['overwrite'] and op['name'] in model.names and (ent is None or model.names[op['name']] != key or ent['sig'] != sg):
                must_reject = True
            if ent is not None and ent['sig'] == sg and not op['overwrite'] and set(op['methods']) & set(ent['methods']):
                must_reject = True
            if ent is not None and ent['sig'] != sg:
                must_reject = True
            if must_reject and ok:
                raise CheckFailure(f'{what}: add({text!r}, {op["methods"]}, name={op["name"]!r}, overwrite={op["overwrite"]}) was accepted although the name / method / '
                                   f'pattern is taken (model routes {_desc(model, spell)}, names {model.names})')
            if ent is not None and ent['sig'] == sg and not must_reject and not ok:
                raise CheckFailure(f'{what}: add({text!r}, {op["methods"]}) on an existing route was rejected: {type(exc).__name__}: {str(exc)[:200]}')
            if not ok and ent is None and not must_reject and all(all(h['known']) and not h.get('ambiguous') for h in model.hooks.values()):
                # a first registration that the edited router refuses must be refused by a router freshly built from the survivors as well
                # (a node left behind by earlier removals must not decide about later registrations)
                _same_refusal(ctx, model, tags, spell, what, 'add', text, type(exc).__name__,
                              lambda fr: fr.add(text, op['methods'], tags.handler(tag), op['name'], overwrite=op['overwrite']))
            if ok:
                accepted_adds += 1
                handles.append((handle, key))           # the Route object add() returned (it may be stale by the time it is used for a removal)
                if ent is None:
                    ent = model.routes[key] = {'ast': ast, 'sig': sg, 'methods': {}, 'order': model.tick()}
                    if key in model.removed_once:
                        model.flags.add('readd_after_removal')
                for M in op['methods']:
                    ent['methods'][M] = {'tag': tag, 'ast': ast, 'choice': op['choice']}
                if op['name']:
                    model.names[op['name']] = key
        elif kind == 'remove':
            ast = uni[op['rule'] % len(uni)]
            text = R.render(ast, op['choice'], spell)
            try:
                router.remove(text)
            except Exception as e:
                raise CheckFailure(f'{what}: remove({text!r}) raised {type(e).__name__}: {str(e)[:200]}')
            key = bare(ast)
            if key in model.routes:
                _drop_route(model, key)
        elif kind == 'remove_obj':
            # removal through a Route object kept from an earlier add(): it addresses the pattern, whatever is registered there now
            if not handles or handles[op['handle'] % len(handles)][0] is None:
                continue
            hobj, hkey = handles[op['handle'] % len(handles)]
            try:
                router.remove(hobj)
                okr = True
            except Exception as e:
                okr = False
                if hkey in model.routes:
                    raise CheckFailure(f'{what}: remove(<Route {hobj.rule!r}>) raised {type(e).__name__}: {str(e)[:200]} although its pattern is registered')
            if okr and hkey in model.routes:
                _drop_route(model, hkey)
                model.flags.add('removal_by_route_object')
        elif kind == 'remove_name':
            n = op['name']
            try:
                router.remove(name=n)
                ok = True
            except KeyError:
                ok = False
            except Exception as e:
                raise CheckFailure(f'{what}: remove(name={n!r}) raised {type(e).__name__}: {str(e)[:200]}')
            if ok != (n in model.names):
                raise CheckFailure(f'{what}: remove(name={n!r}) {"succeeded" if ok else "raised KeyError"}, model names: {model.names}')
            if ok:
                _drop_route(model, model.names[n])
        elif kind == 'remove_prefix':
            ast = hookable[op['hook'] % len(hookable)]
            text = R.render(ast, op['choice'], spell)
            pk = bare(ast)
            try:
                router.remove(text + '*')
                ok = True
            except Exception as e:
                ok = False       # e.g. ':name*' is not valid rule syntax: nothing may change
            if ok:
                for key in [k for k in model.routes if k.startswith(pk)]:
                    _drop_route(model, key)
                for hk, hv in model.hooks.items():
                    if hk.startswith(pk) and any(hv['known']):
                        hv['known'] = [False, False]          # whether the tree still holds these hooks is unspecified
                        ctx.count('hooks_unjudged_after_prefix_removal')
                model.flags.add('prefix_removal')
        elif kind == 'add_hook':
            ast = hookable[op['hook'] % len(hookable)]
            text = R.render(ast, op['choice'], spell)
            key, sg = bare(ast), sig(ast)
            tagno += 1
            tag = 'k%d' % tagno
            try:
                router.add_hook(text, tags.hook(tag), hook_type=op['type'])
                ok = True
            except Exception as e:
                ok, e_hook = False, e
            hv = model.hooks.get(key)
            if ok:
                if hv is None:
                    hv = model.hooks[key] = {'ast': ast, 'sig': sg, 'pair': [None, None], 'order': model.tick(), 'known': [True, True], 'choice': op['choice']}
                elif not all(hv['known']):
                    # whatever the tree still held under the removed prefix, the slot just written now holds this hook (the other slot stays unknown)
                    ctx.count('hook_reinstalled_over_unjudged')
                    if not any(hv['known']):
                        hv['order'] = model.tick()
                        hv['choice'] = op['choice'] if hv['sig'] == sg else hv['choice']
                hv['pair'][op['type']] = tag
                # While nothing is known about the node (it may or may not have survived the prefix removal), an accepted installation under
                # another filter spelling leaves it open which filters the node carries (created anew, or installed in place without a filter
                # check): from then on the entry stays unjudged until it is removed explicitly.
                if not any(hv['known']) and hv['sig'] != sg:
                    hv['ambiguous'] = True
                hv['known'][op['type']] = any(hv['known']) or not hv.get('ambiguous')
                model.flags.add('hook_op')
            elif hv is not None and all(hv['known']):
                raise CheckFailure(f'{what}: add_hook({text!r}) on a pattern that already holds hooks was rejected')
            elif hv is None and all(all(h['known']) and not h.get('ambiguous') for h in model.hooks.values()):
                _same_refusal(ctx, model, tags, spell, what, 'add_hook', text, type(e_hook).__name__,
                              lambda fr: fr.add_hook(text, tags.hook(tag), hook_type=op['type']))
        elif kind == 'remove_hook':
            ast = hookable[op['hook'] % len(hookable)]
            text = R.render(ast, op['choice'], spell)
            try:
                router.remove_hook(text)
            except Exception as e:
                raise CheckFailure(f'{what}: remove_hook({text!r}) raised {type(e).__name__}: {str(e)[:200]}')
            if model.hooks.pop(bare(ast), None) is not None:
                model.flags.add('hook_op')
        if every_step or si == len(case['ops']) - 1:
            compare(ctx, case, model, router, tags, what)
            if wsgi and si % 5 == 4:
                compare_wsgi(ctx, case, model, router, tags, log, what)
    return model, accepted_adds


def _same_refusal(ctx, model, tags, spell, what, opname, text, excname, do):
    try:
        fresh = build_fresh(model, tags, spell)
    except Exception:
        return          # reported by compare()
    try:
        do(fresh)
    except Exception:
        ctx.count('refused_registration_refused_by_fresh_router_too')
        return
    raise CheckFailure(f'{what}: {opname}({text!r}) was refused by the edited router ({excname}) but is accepted by a router freshly built from the '
                       f'survivors {_desc(model, spell)}, hooks {[R.render(h["ast"], (), spell) for h in model.hooks.values()]}')


def _drop_route(model, key):
    model.routes.pop(key)
    model.removed_once.add(key)
    for n in [n for n, k in model.names.items() if k == key]:
        del model.names[n]
    model.flags.add('removal')


def _desc(model, spell):
    return {R.render(v['ast'], (), spell): {M: m['tag'] for M, m in v['methods'].items()} for v in model.routes.values()}


def compare(ctx, case, model, router, tags, what):
    spell = case['spell']
    # tags of hooks that were dropped from the model while unjudged can still sit in the edited tree: treat every tag not in the judged set as unjudged
    judged = {t for hv in model.hooks.values() for i, t in enumerate(hv['pair']) if t and hv['known'][i]}

    class _U:
        def __contains__(self, t):
            return t not in judged
    try:
        fresh = build_fresh(model, tags, spell)
    except Exception as e:
        raise CheckFailure(f'{what}: a fresh router could not be built from the survivors {_desc(model, spell)}, hooks '
                           f'{[(R.render(h["ast"], (), spell), h["pair"]) for h in model.hooks.values()]}: {type(e).__name__}: {str(e)[:300]}') from None      # (RadiDictKeyError cannot be printed as a chained exception)
    for path in case['paths']:
        for method in ('GET', 'POST'):
            a = observe(router, path, method, _U())
            b = observe(fresh, path, method, _U())
            if a != b:
                raise CheckFailure(f'{what}: {method} {path!r}: edited router answers {a}, a router freshly built from the survivors answers {b}\n'
                                   f' survivors {_desc(model, spell)}\n hooks {[(R.render(h["ast"], (), spell), h["pair"], h["known"]) for h in model.hooks.values()]}\n'
                                   f' history {case["ops"][:int(what.split()[1]) + 1]}')
            e = expected(model, path, method)
            if e is None:
                ctx.exclude('unspecified_empty')
            elif a[:len(e)] != e and not (a[0] == 'err' and e[0] == 'err' and a[1] == e[1] == 404):
                raise CheckFailure(f'{what}: {method} {path!r}: edited router answers {a}, model + reference matcher expect {e}\n survivors {_desc(model, spell)}\n'
                                   f' hooks {[(R.render(h["ast"], (), spell), h["pair"], h["known"]) for h in model.hooks.values()]}')
            if a[0] == 'ok' and a[3]:
                ctx.count('probe_with_hooks_fired')
    # indexes
    if set(router.routes) != set(model.routes):
        raise CheckFailure(f'{what}: router.routes keys {sorted(router.routes)!r} != surviving patterns {sorted(model.routes)!r}')
    for n in NAMEPOOL:
        r = router[n]
        want = model.names.get(n)
        if (r.pattern if r is not None else None) != want:
            raise CheckFailure(f'{what}: router[{n!r}] is {r!r}, model says {want!r}')
        if r is not None and router.routes.get(r.pattern) is not r:
            raise CheckFailure(f'{what}: router[{n!r}] is a route object that is not the live route of its pattern (dead route)')
    for i, ast in enumerate(case['universe']):
        text = R.render(ast, (), spell)
        try:
            r = router[{text}]
        except Exception as e:
            raise CheckFailure(f'{what}: router[{{{text!r}}}] raised {type(e).__name__}')
        ent = model.routes.get(bare(ast))
        want = ent is not None and ent['sig'] == sig(ast)
        if (r is not None) != want:
            raise CheckFailure(f'{what}: router[{{{text!r}}}] is {r!r}; model: route {"exists" if want else "does not exist"}')
    judged_hooks = {k for k, v in model.hooks.items() if any(v['known'][i] and v['pair'][i] for i in (0, 1))}
    rh = set(router.hooks)
    if judged_hooks - rh:
        raise CheckFailure(f'{what}: router.hooks lacks installed hook patterns {sorted(judged_hooks - rh)!r}')
    if rh - set(model.hooks):
        raise CheckFailure(f'{what}: router.hooks lists removed hook patterns {sorted(rh - set(model.hooks))!r}')


def compare_wsgi(ctx, case, model, router, tags, log, what):
    """Drive the edited router through Ombott.__call__: which hooks are really invoked, with which prefix."""
    import ombott
    app = ombott.Ombott()
    app.router = router
    judged = {t for hv in model.hooks.values() for i, t in enumerate(hv['pair']) if t and hv['known'][i]}
    for path in case['paths'][:6]:
        try:
            path.encode('utf8')
        except UnicodeError:
            continue
        e = expected(model, path, 'GET')
        if e is None:
            continue
        del log[:]
        r = call_app(app, make_environ('GET', path))
        if r.escaped is not None:
            raise CheckFailure(f'{what}: GET {path!r} through WSGI: exception escaped {fmt_exc(r.escaped)}')
        got = [(t, p) for t, p in log if t in judged]
        if e[0] == 'ok':
            sp = '/' + path.lstrip('/')
            want = [(t, sp[:1 + pos]) for t, pos in e[3]]
            if r.code != 200 or r.body != e[1].encode() or got != want:
                raise CheckFailure(f'{what}: GET {path!r} through WSGI: status {r.status!r} body {r.body[:40]!r} hook calls {got}; expected handler {e[1]} and hook calls {want}; '
                                   f'{r.errors[-300:]}')
            if want:
                ctx.count('wsgi_hook_invocations_checked')
        elif e[1] == 405 and r.code != 405:
            raise CheckFailure(f'{what}: GET {path!r} through WSGI answered {r.status!r}, expected 405')
        ctx.count('wsgi_requests')


def check_case(ctx, case):
    model, adds = run_history(ctx, case)
    kinds = [o['op'] for o in case['ops']]
    for k in set(kinds):
        ctx.count('op_' + k, kinds.count(k))
    for f in model.flags:
        ctx.count('history_with_' + f)
    shared = False
    if 'removal' in model.flags and adds >= 2:
        shared = True
    if shared or 'hook_op' in model.flags or 'readd_after_removal' in model.flags:
        ctx.nontrivial(case, sample={'universe': [R.render(a, (), case['spell']) for a in case['universe']],
                                     'ops': [{k: v for k, v in o.items() if k != 'choice'} for o in case['ops'][:12]]})


# ------------------------------------------------------------------ exhaustive bounded histories
def bounded(ctx):
    lit = lambda t: ['lit', t]   # noqa
    uni = [[lit('/a/b')], [lit('/a/bc')], [lit('/a/'), ['w', 'x', None, None]], [lit('/a/'), ['w', 'x', None, None], lit('/c')], [lit('/ab')],
           [lit('/a/'), ['w', 'y', None, None]],          # (the pattern of rule 2 under another wildcard name)
           [lit('/a/report')]]
    hookable = [[lit('/a/')], [lit('/a/b')], [lit('/')], [lit('/a/'), ['w', 'x', None, None]], [lit('/a')], [lit('/a/reg')], [lit('/a/bd')]]
    alphabet = [
        {'op': 'add', 'rule': 0, 'methods': ['GET'], 'name': 'n1', 'overwrite': False, 'choice': []},
        {'op': 'add', 'rule': 1, 'methods': ['GET'], 'name': None, 'overwrite': False, 'choice': []},
        {'op': 'add', 'rule': 2, 'methods': ['GET'], 'name': 'n1', 'overwrite': False, 'choice': [1]},
        {'op': 'add', 'rule': 3, 'methods': ['POST'], 'name': 'n2', 'overwrite': True, 'choice': []},
        {'op': 'add', 'rule': 4, 'methods': ['GET'], 'name': None, 'overwrite': False, 'choice': []},
        {'op': 'add', 'rule': 0, 'methods': ['GET'], 'name': None, 'overwrite': False, 'choice': [], 'mspell': 1},       # the verb in lower case
        {'op': 'add', 'rule': 5, 'methods': ['GET'], 'name': None, 'overwrite': True, 'choice': []},                     # overwrite through a rule that renames the wildcard
        {'op': 'add', 'rule': 0, 'methods': ['POST', 'GET'], 'name': None, 'overwrite': False, 'choice': []},            # refused as a whole when GET is taken (POST must not stay behind)
        {'op': 'add', 'rule': 1, 'methods': [], 'name': 'n2', 'overwrite': False, 'choice': []},                          # a route registered with no method yet (it exists: 405)
        {'op': 'remove', 'rule': 0, 'choice': []},
        {'op': 'remove', 'rule': 2, 'choice': []},
        {'op': 'remove_name', 'name': 'n1'},
        {'op': 'remove_obj', 'handle': 0},                # through the Route object the first accepted add() returned (stale if that rule was removed since)
        {'op': 'remove_prefix', 'hook': 1, 'choice': []},
        {'op': 'add', 'rule': 6, 'methods': ['GET'], 'name': None, 'overwrite': False, 'choice': []},                      # /a/report
        {'op': 'remove_prefix', 'hook': 5, 'choice': []},                                                                   # '/a/reg*': shares 're' with the key of /a/report, then diverges
        {'op': 'add_hook', 'hook': 0, 'type': 0, 'choice': []},
        {'op': 'add_hook', 'hook': 3, 'type': 0, 'choice': []},
        {'op': 'add_hook', 'hook': 1, 'type': 0, 'choice': []},           # a hook on the static branch below the fork /a/ -> b | <x>
        {'op': 'remove_hook', 'hook': 0, 'choice': []},
        {'op': 'add_hook', 'hook': 2, 'type': 0, 'choice': []},
    ]
    paths = ['/a/b', '/a/bc', '/a/x', '/a/x/c', '/ab', '/a/', '/a', '/', '/a/b/c', '/a/bcd', '/zz', '/a/report', '/a/reg']
    _enumerate(ctx, uni, hookable, alphabet, paths, 4 if ctx.tier == 'quick' else 5, 'bounded')
    # second universe: two filters competing for one position (a registration is refused while a node with the other filter exists, and must be
    # accepted again once every route and hook that needed that node is gone, however they went)
    wi, wr = ['w', 'x', 'int', None], ['w', 'x', 're', '[a-z]+']
    uni = [[lit('/p/'), wi], [lit('/p/'), wi, lit('/c')], [lit('/p/'), wr], [lit('/p/'), wr, lit('/d')]]
    hookable = [[lit('/p/'), wi], [lit('/p/'), wr], [lit('/p/')]]
    add = lambda r, m='GET': {'op': 'add', 'rule': r, 'methods': [m], 'name': None, 'overwrite': False, 'choice': []}   # noqa
    alphabet = [add(0), add(1), add(2), add(3, 'POST'), {'op': 'remove', 'rule': 0, 'choice': []}, {'op': 'remove', 'rule': 1, 'choice': []},
                {'op': 'remove', 'rule': 2, 'choice': []}, {'op': 'add_hook', 'hook': 0, 'type': 0, 'choice': []}, {'op': 'remove_hook', 'hook': 0, 'choice': []},
                {'op': 'add_hook', 'hook': 1, 'type': 0, 'choice': []}, {'op': 'remove_prefix', 'hook': 2, 'choice': []}]
    paths = ['/p/12', '/p/12/c', '/p/ab', '/p/ab/d', '/p/', '/p/12/d', '/p/ab/c', '/p/-']
    _enumerate(ctx, uni, hookable, alphabet, paths, 5 if ctx.tier == 'quick' else 6, 'conflict')


def _enumerate(ctx, uni, hookable, alphabet, paths, depth, label):
    seqs = list(itertools.product(range(len(alphabet)), repeat=depth))
    mine = seqs[ctx.shard::max(1, ctx.nshards)]
    for seq in mine:
        case = {'universe': uni, 'hookable': hookable, 'spell': 0, 'ops': [alphabet[i] for i in seq], 'paths': paths}
        ctx.evals += 1
        try:
            model, adds = run_history(ctx, case, every_step=False, wsgi=False)
        except CheckFailure as f:
            ctx.record_violation(case, str(f))
        if ('removal' in model.flags and adds >= 2) or 'hook_op' in model.flags or 'readd_after_removal' in model.flags:
            ctx.nontrivial(label + ':' + repr(seq))
    ctx.count(f'{label}_histories_depth_{depth}', len(mine))


def large_history(ctx):
    """Size dimension: a route with a filter survives while 160 other routes, each with its own filter expression, come and go."""
    keep = [['lit', '/keep/'], ['w', 'x', 're', 'k+']]
    uni = [keep] + [[['lit', '/t%d/' % i], ['w', 'y', 're', 'z{%d}' % (i + 1)]] for i in range(160)]
    ops = [{'op': 'add', 'rule': 0, 'methods': ['GET'], 'name': 'n1', 'overwrite': False, 'choice': []}]
    for i in range(1, 161):
        ops.append({'op': 'add', 'rule': i, 'methods': ['GET'], 'name': None, 'overwrite': False, 'choice': []})
        if i % 4:
            ops.append({'op': 'remove', 'rule': i, 'choice': []})
    ops.append({'op': 'add', 'rule': 0, 'methods': ['POST'], 'name': None, 'overwrite': False, 'choice': [2]})
    ops.append({'op': 'add_hook', 'hook': 0, 'type': 0, 'choice': []})
    case = {'universe': uni, 'hookable': [[['lit', '/']], [['lit', '/keep/']]], 'spell': 0, 'ops': ops, 'paths': ['/keep/kk', '/keep/x', '/t8/zzzzzzzzz', '/t5/zzzzzz', '/t160/z', '/nope']}
    ctx.evals += 1
    try:
        run_history(ctx, case, every_step=False, wsgi=False)
    except CheckFailure as f:
        ctx.record_violation(case, str(f))
    ctx.nontrivial('large_history')
    ctx.count('large_history_ops', len(ops))


def run(ctx):
    if ctx.shard == 0:
        large_history(ctx)
    for name, case in load_corpus(ID):
        ctx.guarded(check_case, case)
        ctx.count('corpus')
    bounded(ctx)
    n = 120 if ctx.tier == 'quick' else 4000
    ctx.hyp(case_st(), check_case, n)


def replay(ctx, case):
    check_case(ctx, case)
