"""C02  Method dispatch: verb, ANY and HEAD fallbacks, 405 with exact Allow."""
from hypothesis import strategies as st

from vlib import rules as R
from vlib.core import CheckFailure, load_corpus, fmt_exc
from vlib.wsgi import make_environ, call_app

ID = 'C02'
LEVEL = 'exploration'
RULE = ('case = 1-4 rule ASTs (C01 generator, derived rules share patterns / prefixes) + a registration script of 1-10 steps: add(rule, method subset of '
        '{GET, POST, PUT, DELETE, HEAD, PATCH, OPTIONS, ANY, FOO} spelled upper / lower / mixed case, overwrite or not) | remove_method(rule, subset) via the '
        'Route object | RouteMethod.remove(); then 6 requests: method from {registered, unregistered, lower-case spellings, HEAD, ANY, FOO} x path built from '
        'a rule (or edited into a miss). Oracle = dict model per route (METHOD -> handler tag; a non-overwrite add hitting a taken method is rejected as a '
        'whole and changes nothing): expected handler = first registered of [M, GET if M == HEAD, ANY]; otherwise 405 whose Allow header parsed as a '
        'comma-separated list is duplicate-free and equals the registered set; 404 iff the reference matcher finds no route (never 405 without a route, never '
        '404 with one). Observed on Ombott.to_route / RadiRouter.resolve and on the status line, Allow header and handler actually run through Ombott.__call__ (requests with and without an Accept header asking for a JSON error document). '
        'Route hooks (per-prefix 404 handlers via error(404, rule=prefix), on_route hooks) may be installed on prefixes of the rules at any step: a 405 stays a 405 with Allow and never runs a prefix 404 handler. Plus: an overwrite=True registration on one thread against a request on another under every single-preemption schedule (answer must come from the old or the new handler). Non-trivial = the request exercises a fallback (HEAD->GET, ->ANY), a 405, a case-folded method name, or a route whose table was overwritten / reduced; '
        'distinct by case hash + request.')
ASSUMPTIONS = ['route selection itself is C01; here paths are exact instantiations or clear misses, empty-binding verdicts are skipped',
               'a route whose methods were all removed still exists (405 with an empty Allow), as the property says 404 is for paths that match no route']

VERBS = ['GET', 'POST', 'PUT', 'DELETE', 'HEAD', 'PATCH', 'OPTIONS', 'ANY', 'FOO', 'M-SEARCH', 'VERSION-CONTROL', 'X.PING', 'SEARCH', 'GET2', "A!B"]


def spell(m, k):
    return [m, m.lower(), m.capitalize(), m[:1].lower() + m[1:]][k % 4]


@st.composite
def case_st(draw):
    base = draw(R.rule_st(4))
    asts = [base]
    for _ in range(draw(st.integers(0, 3))):
        asts.append(draw(st.one_of(R.derived_rule_st(draw(st.sampled_from(asts))), R.rule_st(3))))
    events = []

    def req():
        return {'req': True, 'method': spell(draw(st.sampled_from(VERBS + ['HEAD', 'GET', 'TRACE'])), draw(st.sampled_from([0, 0, 0, 1, 2]))),
                'path': draw(R.path_for(draw(st.sampled_from(asts)))), 'accept': draw(st.sampled_from([None, None, 'application/json', 'text/html', 'application/json, text/html;q=0.5'])),
                'override': draw(st.sampled_from([None, None, None, None, 'PUT', 'DELETE', 'PATCH', 'GET', 'HEAD', 'FOO']))}
    for _ in range(draw(st.integers(1, 10))):
        op = draw(st.sampled_from(['add', 'add', 'add', 'add_over', 'remove_method', 'rm_remove']))
        ms = draw(st.lists(st.sampled_from(VERBS), min_size=0 if draw(st.integers(0, 19)) == 0 else 1, max_size=3, unique=True))
        events.append({'op': op, 'rule': draw(st.integers(0, len(asts) - 1)), 'methods': [spell(m, draw(st.integers(0, 7))) for m in ms],
                       'as_str': draw(st.booleans()), 'via_app': draw(st.booleans())})
        # requests are interleaved with the edits: an answer may not depend on what was answered before an edit
        for _ in range(draw(st.sampled_from([0, 0, 1, 2]))):
            events.append(req())
    for _ in range(4):
        events.append(req())
    # route hooks (per-prefix 404 handlers, on_route hooks) on prefixes of the rules: they must not change which verb is served or refused
    for _ in range(draw(st.sampled_from([0, 0, 1, 2]))):
        events.insert(draw(st.integers(0, max(0, len(events) - 4))), {'op': 'hook', 'kind': draw(st.sampled_from(['err404', 'err404', 'on_route'])),
                                                                       'rule': draw(st.integers(0, len(asts) - 1)), 'cut': draw(st.integers(1, 4)), 'methods': [], 'as_str': False})
    return {'asts': asts, 'choice': draw(st.lists(st.integers(0, 30), max_size=3)), 'spell': draw(st.integers(0, 1)), 'events': events}


def check_case(ctx, case):
    import ombott
    app = ombott.Ombott()
    router = app.router
    box = {}
    texts = [R.render(a, case['choice'], case['spell']) for a in case['asts']]
    model = {}          # pattern key -> {'methods': {M: tag}, 'ast': first accepted ast, 'edited': bool}
    order = []          # accepted asts (for the reference matcher)
    tagno = [0]

    def override_hook():
        # the X-HTTP-Method-Override recipe: a before_request hook rewrites the verb (hooks run before routing)
        ov = app.request.environ.get('HTTP_X_HTTP_METHOD_OVERRIDE')
        if ov:
            app.request.environ['REQUEST_METHOD'] = ov
    app.add_hook('before_request', override_hook)

    def handler_for(tag):
        def h(**kw):
            box['ran'] = tag
            return tag
        return h
    events = case.get('events')
    if events is None:      # older corpus layout: all steps, then all requests
        events = list(case['steps']) + [dict(r, req=True) for r in case['reqs']]
    edits_seen = 0
    for si, stp in enumerate(events):
        if stp.get('req'):
            _request(ctx, case, app, box, model, order, texts, stp, edits_seen)
            continue
        if stp['op'] == 'hook':
            pre = R.merge(case['asts'][stp['rule']][:stp['cut']])
            ptext = R.render(pre, case['choice'], case['spell']) if pre and pre[0][0] == 'lit' and pre[0][1].startswith('/') else None
            if ptext is None:
                continue
            try:
                if stp['kind'] == 'err404':
                    def p404(route, params):
                        box['hook'] = 'err404'
                        app.response.status = 404
                        return 'prefix-404'
                    app.error(404, rule=ptext)(p404)
                else:
                    app.on_route(ptext, lambda route: box.__setitem__('simple', route))
                ctx.count('hook_installed_' + stp['kind'])
            except Exception:
                ctx.count('hook_rejected')
            continue
        edits_seen += 1
        ast = R.merge(case['asts'][stp['rule']])
        text = texts[stp['rule']]
        if text is None or not R.legal(ast):
            continue
        key = R.pattern_key(ast)
        up = [m.upper() for m in stp['methods']]
        if stp['op'] in ('add', 'add_over'):
            over = stp['op'] == 'add_over'
            tagno[0] += 1
            tag = 't%d' % tagno[0]
            arg = stp['methods'][0] if (stp['as_str'] and len(stp['methods']) == 1) else list(stp['methods'])
            try:
                if stp.get('via_app'):
                    app.route(text, method=arg, callback=handler_for(tag), overwrite=over)          # the decorator API of the application (same router behind it)
                else:
                    router.add(text, arg, handler_for(tag), overwrite=over)
                accepted = True
            except Exception as e:
                accepted = False
                err = e
            ent = model.get(key)
            if ent is not None:
                taken = set(up) & set(ent['methods'])
                should = over or not taken
                if accepted != should:
                    raise CheckFailure(f'step {si} {stp}: add on {text!r} (registered {sorted(ent["methods"])}) was {"accepted" if accepted else "rejected"}, '
                                       f'model says {"accept" if should else "reject"}')
                if accepted:
                    if taken:
                        ent['edited'] = True
                    for m in up:
                        ent['methods'][m] = tag
            else:
                if accepted:
                    model[key] = {'methods': {m: tag for m in up}, 'ast': ast, 'edited': False}
                    order.append(ast)
                # a first registration may be rejected for router reasons (filter conflict): left out
        else:
            ent = model.get(key)
            if ent is None:
                continue
            route = router[{text}]
            if route is None:
                raise CheckFailure(f'step {si}: router[{{{text!r}}}] is None although the rule was registered')
            if stp['op'] == 'remove_method':
                route.remove_method(up[0] if (stp['as_str'] and len(up) == 1) else up)
                for m in up:
                    ent['methods'].pop(m, None)
            else:
                for m in up:
                    rm = route.methods.get(m)
                    if rm is not None:
                        rm.remove()
                    ent['methods'].pop(m, None)
            ent['edited'] = True


def _request(ctx, case, app, box, model, order, texts, rq, edits_seen):
    if not model:
        ctx.count('request_before_any_route')
    desc = {texts[[R.pattern_key(R.merge(a)) for a in case['asts']].index(k)]: dict(v['methods']) for k, v in model.items()}
    for rq in [rq]:
        path, method = rq['path'], rq['method']
        sent_as = method
        if rq.get('override'):
            sent_as, method = 'POST', rq['override']             # sent as POST, to be dispatched as the verb named in the override header
            ctx.count('verb_overridden_by_a_before_request_hook')
        try:
            path.encode('utf8')
        except UnicodeError:
            continue
        strict, lenient, agreed = R.verdict(order, path.strip('/'))
        if not agreed or (strict is None) != (lenient is None):
            ctx.exclude('unspecified_empty')
            continue
        M = method.upper()
        cands = [M] + (['GET'] if M == 'HEAD' else []) + ['ANY']
        if strict is None:
            want = ('404', None)
        else:
            ent = model[R.pattern_key(order[strict[0]])]
            hit = next((c for c in cands if c in ent['methods']), None)
            want = ('200', ent['methods'][hit]) if hit else ('405', set(ent['methods']))
        # ---- (a) Ombott.to_route (upper-cased verb, as request.method delivers it)
        end_point, err = app.to_route(path, M)
        if want[0] == '404':
            ok = end_point is None and err and err[0] == 404
        elif want[0] == '405':
            ok = end_point is None and err and err[0] == 405
        else:
            ok = end_point is not None and end_point[0].handler() == want[1]
        if not ok:
            raise CheckFailure(f'routes {desc}: {M} {path!r}: to_route gave {"handler " + str(end_point[0].handler()) if end_point else "error " + str(err[0])}, expected {want}')
        # ---- (b) through WSGI
        box.clear()
        hdrs = {'Accept': rq['accept']} if rq.get('accept') else {}
        if rq.get('override'):
            hdrs['X-HTTP-Method-Override'] = rq['override']
        r = call_app(app, make_environ(sent_as, path, headers=hdrs or None))      # (the client may ask for a JSON error document)
        if r.escaped is not None:
            raise CheckFailure(f'{method} {path!r}: exception escaped {fmt_exc(r.escaped)}')
        if rq.get('accept'):
            ctx.count('request_with_accept_header')
        if want[0] == '404':
            if r.code != 404:
                raise CheckFailure(f'routes {desc}: {method} {path!r} matches no route, answered {r.status!r}')
        elif want[0] == '405':
            if r.code != 405 or box.get('hook'):
                raise CheckFailure(f'routes {desc}: {method} {path!r}: no handler among {cands}, expected 405, answered {r.status!r} (handler run: {box.get("ran")}, '
                                   f'prefix 404 hook run: {box.get("hook")})')
            allow = r.header_all('Allow')
            if len(allow) != 1:
                raise CheckFailure(f'routes {desc}: 405 for {method} {path!r} carries {len(allow)} Allow headers: {allow}')
            items = [x.strip() for x in allow[0].split(',') if x.strip()]
            if len(set(items)) != len(items) or set(items) != want[1]:
                raise CheckFailure(f'routes {desc}: 405 for {method} {path!r}: Allow {allow[0]!r}, registered methods {sorted(want[1])}')
        else:
            if r.code != 200 or box.get('ran') != want[1]:
                raise CheckFailure(f'routes {desc}: {method} {path!r} must run handler {want[1]} (candidates {cands}); status {r.status!r}, handler run: {box.get("ran")}; {r.errors[-300:]}')
            if M != 'HEAD' and r.body != want[1].encode():
                raise CheckFailure(f'routes {desc}: {method} {path!r}: body {r.body!r}, expected {want[1]!r}')
        # ---- classification
        nt = False
        if want[0] == '200':
            hitm = next(c for c in cands if c in ent['methods'])
            if hitm != M:
                ctx.count('fallback_head_to_get' if (M == 'HEAD' and hitm == 'GET') else 'fallback_to_any')
                nt = True
            if M == 'HEAD' and 'GET' in ent['methods'] and 'ANY' in ent['methods'] and 'HEAD' not in ent['methods']:
                ctx.count('head_with_get_and_any')
        if want[0] == '405':
            ctx.count('405')
            nt = True
        if want[0] == '404':
            ctx.count('404')
        if method != M:
            ctx.count('lower_or_mixed_case_request_method')
            nt = True
        if strict is not None and ent['edited']:
            ctx.count('route_table_overwritten_or_reduced')
            nt = True
        if strict is not None and not ent['methods']:
            ctx.count('route_with_no_methods_left')
        if nt:
            ctx.nontrivial(repr((desc, method, path)), sample={'routes': desc, 'request': [method, path], 'expected': [want[0], sorted(want[1]) if isinstance(want[1], set) else want[1]]})


def run(ctx):
    for name, case in load_corpus(ID):
        ctx.guarded(check_case, case)
        ctx.count('corpus')
    if ctx.shard == 0:
        # exhaustive: every subset of {GET, HEAD, ANY, POST} registered on one route x every request verb
        import itertools
        regs = ['GET', 'HEAD', 'ANY', 'POST']
        for n in range(0, 5):
            for sub in itertools.combinations(regs, n):
                reqs = [{'req': True, 'method': v, 'path': p, 'accept': acc} for v in ['GET', 'HEAD', 'POST', 'ANY', 'PUT', 'head', 'get'] for p in ['/r/1', '/nope']
                        for acc in (None, 'application/json')]
                steps = [{'op': 'add', 'rule': 0, 'methods': [m], 'as_str': True, 'via_app': n % 2 == 0} for m in sub] or [{'op': 'add', 'rule': 0, 'methods': [], 'as_str': False, 'via_app': True}]
                # afterwards every method is removed one by one, with the full request set after each removal
                tail = []
                for m in sub:
                    tail += [{'op': 'remove_method', 'rule': 0, 'methods': [m], 'as_str': True}] + reqs
                case = {'asts': [[['lit', '/r/'], ['w', 'x', None, None]]], 'choice': [], 'spell': 0, 'events': steps + reqs + tail}
                ctx.guarded(check_case, case)
        ctx.count('method_subset_grid')
        # the same grid for three verb sets with a per-prefix 404 handler and an on_route hook at / below / above the route
        for sub in (['GET'], ['POST', 'ANY'], ['GET', 'HEAD', 'PUT'], []):
            for kind in ('err404', 'on_route'):
                for cut in (1, 2):
                    for hook_first in (True, False):
                        reqs = [{'req': True, 'method': v, 'path': p} for v in ['GET', 'HEAD', 'POST', 'PUT', 'DELETE'] for p in ['/r/1', '/r', '/r/1/2', '/nope']]
                        steps = [{'op': 'add', 'rule': 0, 'methods': [m], 'as_str': True} for m in sub]
                        hk = [{'op': 'hook', 'kind': kind, 'rule': 0, 'cut': cut, 'methods': [], 'as_str': False}]
                        case = {'asts': [[['lit', '/r/'], ['w', 'x', None, None]]], 'choice': [], 'spell': 0, 'events': (hk + steps if hook_first else steps + hk) + reqs}
                        ctx.guarded(check_case, case)
        ctx.count('hooked_route_grid')
        # requests sent as POST with a verb override header (a before_request hook rewrites REQUEST_METHOD) against every small verb set
        for sub in (['POST'], ['POST', 'DELETE'], ['GET'], ['PUT', 'ANY'], ['DELETE', 'POST', 'GET']):
            steps = [{'op': 'add', 'rule': 0, 'methods': [m], 'as_str': True} for m in sub]
            reqs = [{'req': True, 'method': 'POST', 'path': p, 'override': ov} for ov in (None, 'PUT', 'DELETE', 'GET', 'HEAD', 'PATCH', 'delete') for p in ('/r/1', '/nope')]
            ctx.guarded(check_case, {'asts': [[['lit', '/r/'], ['w', 'x', None, None]]], 'choice': [], 'spell': 0, 'events': steps + reqs})
        ctx.count('verb_override_grid')
        for reg, rm, req in ((['GET', 'ANY'], ['GET'], 'GET'), (['GET'], ['GET'], 'GET'), (['GET', 'POST'], ['POST'], 'POST'), (['HEAD', 'GET'], ['HEAD'], 'HEAD'), (['ANY'], ['ANY'], 'PUT')):
            ctx.guarded(check_concurrent_overwrite, {'registered': reg, 'overwrite': rm, 'request': req, 'remove': True})
        for reg, over, req in ((['GET'], ['GET'], 'GET'), (['GET', 'POST'], ['POST'], 'POST'), (['GET', 'ANY'], ['GET'], 'GET'), (['GET'], ['GET', 'PUT'], 'HEAD'),
                               (['ANY'], ['ANY'], 'DELETE')):
            ctx.guarded(check_concurrent_overwrite, {'registered': reg, 'overwrite': over, 'request': req})
    if ctx.shard == 0:
        for reg, a, b in ((['GET'], ['add', ['POST'], False], ['add', ['PUT'], False]), (['GET', 'POST'], ['add', ['POST'], True], ['remove', ['GET']]),
                          (['GET', 'POST', 'PUT'], ['remove', ['POST']], ['remove', ['PUT']]), (['GET'], ['add', ['POST', 'DELETE'], False], ['remove', ['GET']]),
                          (['GET'], ['add', ['PUT'], False], ['add', ['PUT'], False]), (['ANY'], ['add', ['GET'], False], ['add', ['ANY'], True])):
            ctx.guarded(check_concurrent_edits, {'registered': reg, 'ops': [a, b]})
    n = 1500 if ctx.tier == "quick" else 20000
    ctx.hyp(case_st(), check_case, n)


def check_concurrent_overwrite(ctx, case):
    """A registration with overwrite=True running on one thread while another thread's request for that verb is being routed:
    the request is answered by the old or by the new handler, never by a 405 / fallback (every single-preemption schedule)."""
    import ombott
    from vlib.sched import Scheduler, BIG
    from checks.c08_threads import relevant
    verbs, over, req = case['registered'], case['overwrite'], case['request']

    def fresh():
        app = ombott.Ombott()
        box = {}
        for v in verbs:
            app.route('/r/<x>', method=v, callback=(lambda v=v: (lambda **kw: box.__setitem__('ran', 'old-' + v) or 'old-' + v))())
        return app, box

    def run(schedule):
        app, box = fresh()
        res = {}

        def registrar():
            if case.get('remove'):
                app.router[{'/r/<x>'}].remove_method(list(over))          # the verb is taken away while a request for it is being dispatched
                return
            app.route('/r/<x>', method=list(over), callback=lambda **kw: box.__setitem__('ran', 'new') or 'new', overwrite=True)

        def requester():
            res['r'] = call_app(app, make_environ(req, '/r/1'))
        sc = Scheduler([registrar, requester], schedule, relevant)
        sc.run()
        for e in sc.errors:
            if e is not None:
                raise CheckFailure(f'thread raised {fmt_exc(e)} under schedule {schedule}')
        r = res['r']
        M = req.upper()
        cands = [M] + (['GET'] if M == 'HEAD' else []) + ['ANY']
        before = next((c for c in cands if c in verbs), None)
        after = next((c for c in cands if c in ((set(verbs) - set(over)) if case.get('remove') else (set(verbs) | set(over)))), None)
        ok_bodies = set()
        if before:
            ok_bodies.add('new' if False else 'old-' + before)
        if after:
            ok_bodies.add('new' if (after in over and not case.get('remove')) else 'old-' + after)
        if before is None or (case.get('remove') and after is None):
            ok_bodies.add('405')
        got = box.get('ran') if r.code == 200 else str(r.code)
        if got not in ok_bodies:
            raise CheckFailure(f'route with {verbs}, overwrite of {over} running concurrently, request {req}: answered {r.status!r} (handler {box.get("ran")}), '
                               f'allowed outcomes {sorted(ok_bodies)}; schedule {schedule}; Allow={r.header("Allow")!r}')
        ctx.evals += 1
        ctx.nontrivial('conc:' + repr((verbs, over, req, schedule)))
        return sc.yields
    y0 = run([[0, BIG]])[0]
    for k in range(0, y0 + 1):
        run([[0, k], [1, BIG], [0, BIG]])
    # ... and the request pre-empted at every step while the edit runs to completion
    y1 = run([[1, BIG]])[1]
    for k in range(0, y1 + 1):
        run([[1, k], [0, BIG], [1, BIG]])
    ctx.count('concurrent_overwrite_schedules', y0 + y1 + 2)


def check_concurrent_edits(ctx, case):
    """Two threads edit the method table of the SAME route at the same time (add further verbs, overwrite, remove): afterwards every verb is
    answered as after one of the two sequential orders (every single-preemption schedule of either thread)."""
    import ombott
    from vlib.sched import Scheduler, BIG
    from checks.c08_threads import relevant
    verbs, ops = case['registered'], case['ops']

    def fresh():
        app = ombott.Ombott()
        for v in verbs:
            app.route('/r/<x>', method=v, callback=(lambda v=v: (lambda **kw: 'old-' + v))())
        return app

    def op_fn(app, i, op, out):
        # the edits go through the Route object (Route.add_method / set_method / remove_method): parsing a rule is not part of what is raced here
        route = app.router[{'/r/<x>'}]

        def fn():
            try:
                if op[0] == 'add':
                    (route.set_method if op[2] else route.add_method)(list(op[1]), (lambda **kw: 'new%d' % i))
                else:
                    route.remove_method(list(op[1]))
                out[i] = 'ok'
            except Exception as e:
                out[i] = type(e).__name__
        return fn

    def signature(app, out):
        sig = []        # (whether a racing duplicate registration is refused is a check-then-act matter outside the property: only the resulting dispatch is judged)
        for v in ['GET', 'HEAD', 'POST', 'PUT', 'DELETE']:
            r = call_app(app, make_environ(v, '/r/1'))
            allow = sorted(x.strip() for x in (r.header('Allow') or '').split(',') if x.strip())
            sig.append((v, r.code, r.body if r.code == 200 and v != 'HEAD' else None, tuple(allow)))
        return sig
    allowed = []
    for order in ((0, 1), (1, 0)):
        app, out = fresh(), {}
        for i in order:
            op_fn(app, i, ops[i], out)()
        allowed.append(signature(app, out))

    def run(schedule):
        app, out = fresh(), {}
        sc = Scheduler([op_fn(app, 0, ops[0], out), op_fn(app, 1, ops[1], out)], schedule, relevant)
        sc.run()
        for e in sc.errors:
            if e is not None:
                raise CheckFailure(f'thread raised {fmt_exc(e)} under schedule {schedule}')
        sig = signature(app, out)
        if sig not in allowed:
            raise CheckFailure(f'route with {verbs}; edits {ops} running concurrently under schedule {schedule}: afterwards the route answers {sig}, '
                               f'after either sequential order it answers {allowed[0]} or {allowed[1]}')
        ctx.evals += 1
        ctx.nontrivial('edits:' + repr((verbs, ops, schedule)))
        return sc.yields
    y = run([[0, BIG], [1, BIG]])
    for k in range(0, y[0] + 1):
        run([[0, k], [1, BIG], [0, BIG]])
    for k in range(0, y[1] + 1):
        run([[1, k], [0, BIG], [1, BIG]])
    ctx.count('concurrent_edit_schedules', y[0] + y[1] + 2)


def replay(ctx, case):
    if 'ops' in case:
        return check_concurrent_edits(ctx, case)
    if 'registered' in case:
        return check_concurrent_overwrite(ctx, case)
    check_case(ctx, case)
