"""C02  Method dispatch: verb, ANY and HEAD fallbacks, 405 with exact Allow."""
from hypothesis import strategies as st

from vlib import rules as R
from vlib.core import CheckFailure, load_corpus, fmt_exc
from vlib.wsgi import make_environ, call_app

ID = 'C02'
LEVEL = 'exploration'
RULE = ('case = 1-4 rule ASTs (C01 generator, derived rules share patterns / prefixes) + a registration script of 1-10 steps: add(rule, method subset of '
        '{GET, POST, PUT, DELETE, HEAD, PATCH, OPTIONS, ANY, FOO} spelled upper / lower / mixed case, overwrite or not) | remove_method(rule, subset) via the '
        'Route object | RouteMethod.remove(); then 6 requests: method from {registered, unregistered, lower-case spellings, HEAD, ANY, FOO} x path built from '
        'a rule (or edited into a miss). Oracle = dict model per route (METHOD -> handler tag; a non-overwrite add hitting a taken method is rejected as a '
        'whole and changes nothing): expected handler = first registered of [M, GET if M == HEAD, ANY]; otherwise 405 whose Allow header parsed as a '
        'comma-separated list is duplicate-free and equals the registered set; 404 iff the reference matcher finds no route (never 405 without a route, never '
        '404 with one). Observed on Ombott.to_route / RadiRouter.resolve and on the status line, Allow header and handler actually run through Ombott.__call__ (requests with and without an Accept header asking for a JSON error document). '
        'Route hooks (per-prefix 404 handlers via error(404, rule=prefix), on_route hooks) may be installed on prefixes of the rules at any step: a 405 stays a 405 with Allow and never runs a prefix 404 handler. Plus: an overwrite=True registration on one thread against a request on another under every single-preemption schedule (answer must come from the old or the new handler). A before_request verb-override hook rewrites the verb in one of three styles (blind write to request.environ | request.method read first, then request.environ written | request[...] assignment), and a request may be followed by a second dispatch of the SAME environ dict with another verb written into it: the REQUEST_METHOD the environ carries at routing time decides. Verbs are also attached / overwritten / removed through the Route object (Route.add_method / set_method / remove_method) with names spelled upper, lower or mixed case as given: upper-case names follow the dict model; for other spellings it is observed whether the verb is taken over, but a verb that has a handler keeps it unless overwrite / removal was asked for, a refused call changes nothing, verbs not named are untouched (Allow may then list the name as given). Non-trivial = the request exercises a fallback (HEAD->GET, ->ANY), a 405, a case-folded method name, or a route whose table was overwritten / reduced; '
        'distinct by case hash + request.')
ASSUMPTIONS = ['route selection itself is C01; here paths are exact instantiations or clear misses, empty-binding verdicts are skipped',
               'a route whose methods were all removed still exists (405 with an empty Allow), as the property says 404 is for paths that match no route']

VERBS = ['GET', 'POST', 'PUT', 'DELETE', 'HEAD', 'PATCH', 'OPTIONS', 'ANY', 'FOO', 'M-SEARCH', 'VERSION-CONTROL', 'X.PING', 'SEARCH', 'GET2', "A!B"]


# the X-HTTP-Method-Override hook: writes environ['REQUEST_METHOD'] without looking | reads request.method first (`if request.method == 'POST'`)
# and then writes the environ dict | assigns through request['REQUEST_METHOD']
OV_STYLES = ['blind', 'read_first', 'setitem']


def spell(m, k):
    return [m, m.lower(), m.capitalize(), m[:1].lower() + m[1:]][k % 4]


@st.composite
def case_st(draw):
    base = draw(R.rule_st(4))
    asts = [base]
    for _ in range(draw(st.integers(0, 3))):
        asts.append(draw(st.one_of(R.derived_rule_st(draw(st.sampled_from(asts))), R.rule_st(3))))
    events = []

    def req():
        return {'req': True, 'method': spell(draw(st.sampled_from(VERBS + ['HEAD', 'GET', 'TRACE'])), draw(st.sampled_from([0, 0, 0, 1, 2]))),
                'path': draw(R.path_for(draw(st.sampled_from(asts)))), 'accept': draw(st.sampled_from([None, None, 'application/json', 'text/html', 'application/json, text/html;q=0.5'])),
                'override': draw(st.sampled_from([None, None, None, None, 'PUT', 'DELETE', 'PATCH', 'GET', 'HEAD', 'FOO'])),
                # how the override hook changes the verb (see OV_STYLES), and a verb the SAME environ dict is dispatched with a second time
                'ov_style': draw(st.sampled_from(OV_STYLES)),
                'again': draw(st.sampled_from([None, None, None, 'GET', 'DELETE', 'PUT', 'post', 'HEAD', 'FOO']))}
    for _ in range(draw(st.integers(1, 10))):
        op = draw(st.sampled_from(['add', 'add', 'add', 'add_over', 'remove_method', 'rm_remove', 'route_add', 'route_set']))
        ms = draw(st.lists(st.sampled_from(VERBS), min_size=0 if draw(st.integers(0, 19)) == 0 else 1, max_size=3, unique=True))
        events.append({'op': op, 'rule': draw(st.integers(0, len(asts) - 1)), 'methods': [spell(m, draw(st.integers(0, 7))) for m in ms],
                       'as_str': draw(st.booleans()), 'via_app': draw(st.booleans()), 'raw': draw(st.sampled_from([False, False, True]))})
        # requests are interleaved with the edits: an answer may not depend on what was answered before an edit
        for _ in range(draw(st.sampled_from([0, 0, 1, 2]))):
            events.append(req())
    for _ in range(4):
        events.append(req())
    # route hooks (per-prefix 404 handlers, on_route hooks) on prefixes of the rules: they must not change which verb is served or refused
    for _ in range(draw(st.sampled_from([0, 0, 1, 2]))):
        events.insert(draw(st.integers(0, max(0, len(events) - 4))), {'op': 'hook', 'kind': draw(st.sampled_from(['err404', 'err404', 'on_route'])),
                                                                       'rule': draw(st.integers(0, len(asts) - 1)), 'cut': draw(st.integers(1, 4)), 'methods': [], 'as_str': False})
    return {'asts': asts, 'choice': draw(st.lists(st.integers(0, 30), max_size=3)), 'spell': draw(st.integers(0, 1)), 'events': events}


def check_case(ctx, case):
    import ombott
    app = ombott.Ombott()
    router = app.router
    box = {}
    texts = [R.render(a, case['choice'], case['spell']) for a in case['asts']]
    model = {}          # pattern key -> {'methods': {M: tag}, 'ast': first accepted ast, 'edited': bool}
    order = []          # accepted asts (for the reference matcher)
    tagno = [0]

    def override_hook():
        # the X-HTTP-Method-Override recipe: a before_request hook rewrites the verb (hooks run before routing)
        rq = app.request
        style = box.get('ov_style')
        if style == 'read_first' and rq.method != 'POST':        # the classic idiom: the verb is looked at before it is rewritten
            return
        ov = rq.environ.get('HTTP_X_HTTP_METHOD_OVERRIDE')
        if ov:
            if style == 'setitem':
                rq['REQUEST_METHOD'] = ov
            else:
                rq.environ['REQUEST_METHOD'] = ov
    app.add_hook('before_request', override_hook)

    def handler_for(tag):
        def h(**kw):
            box['ran'] = tag
            return tag
        return h
    events = case.get('events')
    if events is None:      # older corpus layout: all steps, then all requests
        events = list(case['steps']) + [dict(r, req=True) for r in case['reqs']]
    edits_seen = 0
    for si, stp in enumerate(events):
        if stp.get('req'):
            _request(ctx, case, app, box, model, order, texts, stp, edits_seen)
            continue
        if stp['op'] == 'hook':
            pre = R.merge(case['asts'][stp['rule']][:stp['cut']])
            ptext = R.render(pre, case['choice'], case['spell']) if pre and pre[0][0] == 'lit' and pre[0][1].startswith('/') else None
            if ptext is None:
                continue
            try:
                if stp['kind'] == 'err404':
                    def p404(route, params):
                        box['hook'] = 'err404'
                        app.response.status = 404
                        return 'prefix-404'
                    app.error(404, rule=ptext)(p404)
                else:
                    app.on_route(ptext, lambda route: box.__setitem__('simple', route))
                ctx.count('hook_installed_' + stp['kind'])
            except Exception:
                ctx.count('hook_rejected')
            continue
        edits_seen += 1
        ast = R.merge(case['asts'][stp['rule']])
        text = texts[stp['rule']]
        if text is None or not R.legal(ast):
            continue
        key = R.pattern_key(ast)
        up = [m.upper() for m in stp['methods']]
        if stp['op'] in ('add', 'add_over'):
            over = stp['op'] == 'add_over'
            tagno[0] += 1
            tag = 't%d' % tagno[0]
            arg = stp['methods'][0] if (stp['as_str'] and len(stp['methods']) == 1) else list(stp['methods'])
            try:
                if stp.get('via_app'):
                    app.route(text, method=arg, callback=handler_for(tag), overwrite=over)          # the decorator API of the application (same router behind it)
                else:
                    router.add(text, arg, handler_for(tag), overwrite=over)
                accepted = True
            except Exception as e:
                accepted = False
                err = e
            ent = model.get(key)
            if ent is not None:
                taken = set(up) & set(ent['methods'])
                should = over or not taken
                if accepted != should:
                    raise CheckFailure(f'step {si} {stp}: add on {text!r} (registered {sorted(ent["methods"])}) was {"accepted" if accepted else "rejected"}, '
                                       f'model says {"accept" if should else "reject"}')
                if accepted:
                    if taken:
                        ent['edited'] = True
                    for m in up:
                        ent['methods'][m] = tag
            else:
                if accepted:
                    model[key] = {'methods': {m: tag for m in up}, 'ast': ast, 'edited': False}
                    order.append(ast)
                # a first registration may be rejected for router reasons (filter conflict): left out
        else:
            ent = model.get(key)
            if ent is None:
                continue
            route = router[{text}]
            if route is None:
                raise CheckFailure(f'step {si}: router[{{{text!r}}}] is None although the rule was registered')
            if stp['op'] in ('route_add', 'route_set') or (stp['op'] == 'remove_method' and stp.get('raw')):
                _route_object_edit(ctx, si, stp, text, route, ent, up, tagno, handler_for)
            elif stp['op'] == 'remove_method':
                route.remove_method(up[0] if (stp['as_str'] and len(up) == 1) else up)
                for m in up:
                    ent['methods'].pop(m, None)
            else:
                for m in up:
                    rm = route.methods.get(m)
                    if rm is not None:
                        rm.remove()
                    ent['methods'].pop(m, None)
            ent['edited'] = True


def _route_object_edit(ctx, si, stp, text, route, ent, up, tagno, handler_for):
    """Route.add_method / set_method / remove_method called on the Route object with the verb names spelled AS GIVEN (upper, lower, mixed).
    For upper-case names the dict model applies as it is. Whether the Route layer folds other spellings is not fixed by the property, so for
    those the effect on the verb is observed (taken over or not) -- but which handler may answer a verb is decided by successful
    registrations only: a verb that has a handler keeps it unless the call is an overwrite (set_method) or a removal, a refused call
    changes nothing, and verbs not named in the call are never touched."""
    from ombott.router.errors import RouteMethodError

    def served(v):
        try:
            return route[[v]].handler()
        except RouteMethodError:
            return None
    given = list(stp['methods'])
    arg = given[0] if (stp['as_str'] and len(given) == 1) else given
    canonical = all(g == g.upper() for g in given)
    before = dict(ent['methods'])
    watch = sorted(set(before) | set(up))
    for v in watch:
        if served(v) != before.get(v):
            raise CheckFailure(f'step {si}: route {text!r} with {before}: Route[[{v!r}]] gives {served(v)} before the edit')
    op = stp['op']
    tag = None
    if op != 'remove_method':
        tagno[0] += 1
        tag = 't%d' % tagno[0]
    try:
        if op == 'route_add':
            route.add_method(arg, handler_for(tag))
        elif op == 'route_set':
            route.set_method(arg, handler_for(tag))
        else:
            route.remove_method(arg)
        accepted = True
    except RouteMethodError:
        accepted = False
    what = f'step {si}: Route.{ {"route_add": "add_method", "route_set": "set_method"}.get(op, op)}({arg!r}) on {text!r} with {before}'
    after = {v: served(v) for v in watch}
    ctx.count('route_object_edit_' + op + ('_upper_case_names' if canonical else '_other_spelling'))
    if not accepted:
        if op != 'route_add':
            raise CheckFailure(f'{what} raised RouteMethodError')
        if canonical and not (set(up) & set(before)):
            raise CheckFailure(f'{what} was refused although none of the verbs is taken')
        for v in watch:
            if after[v] != before.get(v):
                raise CheckFailure(f'{what} was refused, but {v} is answered by {after[v]} afterwards (before: {before.get(v)})')
        return
    if op == 'route_add' and canonical and set(up) & set(before):
        raise CheckFailure(f'{what} was accepted although {sorted(set(up) & set(before))} are taken (no overwrite asked for)')
    for v in watch:
        old = before.get(v)
        if v not in up:
            allowed = [old]
        elif op == 'route_add':
            allowed = [old] if old is not None else ([tag] if canonical else [tag, None])
        elif op == 'route_set':
            allowed = [tag] if canonical else [tag, old]
        else:
            allowed = [None] if canonical else [None, old]
        if after[v] not in allowed:
            raise CheckFailure(f'{what} ({"accepted" if op != "remove_method" else "done"}): afterwards {v} is answered by {after[v]}, '
                               f'before by {old}; allowed {allowed}' + (' (the verb had a handler and no overwrite was asked for)' if op == 'route_add' and old is not None else ''))
        if after[v] is None:
            ent['methods'].pop(v, None)
        else:
            ent['methods'][v] = after[v]
        if v in up and old is not None and op == 'route_add':
            ctx.count('route_object_add_of_a_taken_verb_in_another_spelling')
    if not canonical:
        ent.setdefault('phantom', set()).update(g.upper() for g in given if g != g.upper())


def _request(ctx, case, app, box, model, order, texts, rq, edits_seen):
    if not model:
        ctx.count('request_before_any_route')
    desc = {texts[[R.pattern_key(R.merge(a)) for a in case['asts']].index(k)]: dict(v['methods']) for k, v in model.items()}
    for rq in [rq]:
        path, method = rq['path'], rq['method']
        sent_as = method
        if rq.get('override'):
            sent_as, method = 'POST', rq['override']             # sent as POST, to be dispatched as the verb named in the override header
            ctx.count('verb_overridden_by_a_before_request_hook')
        try:
            path.encode('utf8')
        except UnicodeError:
            continue
        strict, lenient, agreed = R.verdict(order, path.strip('/'))
        if not agreed or (strict is None) != (lenient is None):
            ctx.exclude('unspecified_empty')
            continue
        ent = model[R.pattern_key(order[strict[0]])] if strict is not None else None

        def want_for(M):
            cands = [M] + (['GET'] if M == 'HEAD' else []) + ['ANY']
            if ent is None:
                return ('404', None), cands
            hit = next((c for c in cands if c in ent['methods']), None)
            return (('200', ent['methods'][hit]) if hit else ('405', set(ent['methods']))), cands
        M = method.upper()
        want, cands = want_for(M)
        # ---- (a) Ombott.to_route (upper-cased verb, as request.method delivers it)
        end_point, err = app.to_route(path, M)
        if want[0] == '404':
            ok = end_point is None and err and err[0] == 404
        elif want[0] == '405':
            ok = end_point is None and err and err[0] == 405
        else:
            ok = end_point is not None and end_point[0].handler() == want[1]
        if not ok:
            raise CheckFailure(f'routes {desc}: {M} {path!r}: to_route gave {"handler " + str(end_point[0].handler()) if end_point else "error " + str(err[0])}, expected {want}')

        def judge(r, method, want, cands, how=''):
            M = method.upper()
            if r.escaped is not None:
                raise CheckFailure(f'{method} {path!r}{how}: exception escaped {fmt_exc(r.escaped)}')
            if want[0] == '404':
                if r.code != 404:
                    raise CheckFailure(f'routes {desc}: {method} {path!r}{how} matches no route, answered {r.status!r}')
            elif want[0] == '405':
                if r.code != 405 or box.get('hook'):
                    raise CheckFailure(f'routes {desc}: {method} {path!r}{how}: no handler among {cands}, expected 405, answered {r.status!r} (handler run: {box.get("ran")}, '
                                       f'prefix 404 hook run: {box.get("hook")})')
                allow = r.header_all('Allow')
                if len(allow) != 1:
                    raise CheckFailure(f'routes {desc}: 405 for {method} {path!r}{how} carries {len(allow)} Allow headers: {allow}')
                items = [x.strip() for x in allow[0].split(',') if x.strip()]
                if ent.get('phantom'):
                    # names given to the Route object in a non-upper-case spelling may be listed as given (whether that layer folds case is
                    # not fixed by the property): every registered verb is listed, and nothing beyond those names
                    folded = {x.upper() for x in items}
                    if not (want[1] <= folded <= want[1] | ent['phantom']):
                        raise CheckFailure(f'routes {desc}: 405 for {method} {path!r}{how}: Allow {allow[0]!r}, registered methods {sorted(want[1])} '
                                           f'(+ possibly {sorted(ent["phantom"])} given to the Route object in another spelling)')
                elif len(set(items)) != len(items) or set(items) != want[1]:
                    raise CheckFailure(f'routes {desc}: 405 for {method} {path!r}{how}: Allow {allow[0]!r}, registered methods {sorted(want[1])}')
            else:
                if r.code != 200 or box.get('ran') != want[1]:
                    raise CheckFailure(f'routes {desc}: {method} {path!r}{how} must run handler {want[1]} (candidates {cands}); status {r.status!r}, handler run: {box.get("ran")}; {r.errors[-300:]}')
                if M != 'HEAD' and r.body != want[1].encode():
                    raise CheckFailure(f'routes {desc}: {method} {path!r}{how}: body {r.body!r}, expected {want[1]!r}')
        # ---- (b) through WSGI
        box.clear()
        style = rq.get('ov_style') or 'blind'
        box['ov_style'] = style
        hdrs = {'Accept': rq['accept']} if rq.get('accept') else {}
        if rq.get('override'):
            hdrs['X-HTTP-Method-Override'] = rq['override']
            ctx.count('verb_override_hook_style_' + style)
        env = make_environ(sent_as, path, headers=hdrs or None)
        wsgi_path = env['PATH_INFO']
        r = call_app(app, env)      # (the client may ask for a JSON error document)
        if rq.get('accept'):
            ctx.count('request_with_accept_header')
        judge(r, method, want, cands, f' (sent as {sent_as}, override hook style {style})' if rq.get('override') else '')
        if rq.get('again'):
            # the SAME environ dict is dispatched a second time with another verb written into it (internal re-dispatch / forward):
            # the verb that counts is the REQUEST_METHOD the environ carries now
            env['REQUEST_METHOD'] = rq['again']
            env['PATH_INFO'] = wsgi_path            # (the application re-codes PATH_INFO in place; the forwarder hands over a proper WSGI path again)
            env.pop('HTTP_X_HTTP_METHOD_OVERRIDE', None)
            box.clear()
            box['ov_style'] = style
            want2, cands2 = want_for(rq['again'].upper())
            judge(call_app(app, env), rq['again'], want2, cands2, f' (same environ dispatched again, before as {sent_as}{"->" + method if rq.get("override") else ""})')
            ctx.count('same_environ_dispatched_again_with_another_verb')
            if rq['again'].upper() != M:
                ctx.evals += 1          # (the second dispatch of the environ is an evaluated request of its own)
                ctx.nontrivial(repr((desc, method, path, 'again', rq['again'])))
        # ---- classification
        nt = False
        if want[0] == '200':
            hitm = next(c for c in cands if c in ent['methods'])
            if hitm != M:
                ctx.count('fallback_head_to_get' if (M == 'HEAD' and hitm == 'GET') else 'fallback_to_any')
                nt = True
            if M == 'HEAD' and 'GET' in ent['methods'] and 'ANY' in ent['methods'] and 'HEAD' not in ent['methods']:
                ctx.count('head_with_get_and_any')
        if want[0] == '405':
            ctx.count('405')
            nt = True
        if want[0] == '404':
            ctx.count('404')
        if method != M:
            ctx.count('lower_or_mixed_case_request_method')
            nt = True
        if strict is not None and ent['edited']:
            ctx.count('route_table_overwritten_or_reduced')
            nt = True
        if strict is not None and not ent['methods']:
            ctx.count('route_with_no_methods_left')
        if nt:
            ctx.nontrivial(repr((desc, method, path)), sample={'routes': desc, 'request': [method, path], 'expected': [want[0], sorted(want[1]) if isinstance(want[1], set) else want[1]]})


def run(ctx):
    for name, case in load_corpus(ID):
        ctx.guarded(check_case, case)
        ctx.count('corpus')
    if ctx.shard == 0:
        # exhaustive: every subset of {GET, HEAD, ANY, POST} registered on one route x every request verb
        import itertools
        regs = ['GET', 'HEAD', 'ANY', 'POST']
        for n in range(0, 5):
            for sub in itertools.combinations(regs, n):
                reqs = [{'req': True, 'method': v, 'path': p, 'accept': acc} for v in ['GET', 'HEAD', 'POST', 'ANY', 'PUT', 'head', 'get'] for p in ['/r/1', '/nope']
                        for acc in (None, 'application/json')]
                steps = [{'op': 'add', 'rule': 0, 'methods': [m], 'as_str': True, 'via_app': n % 2 == 0} for m in sub] or [{'op': 'add', 'rule': 0, 'methods': [], 'as_str': False, 'via_app': True}]
                # afterwards every method is removed one by one, with the full request set after each removal
                tail = []
                for m in sub:
                    tail += [{'op': 'remove_method', 'rule': 0, 'methods': [m], 'as_str': True}] + reqs
                case = {'asts': [[['lit', '/r/'], ['w', 'x', None, None]]], 'choice': [], 'spell': 0, 'events': steps + reqs + tail}
                ctx.guarded(check_case, case)
        ctx.count('method_subset_grid')
        # the same grid for three verb sets with a per-prefix 404 handler and an on_route hook at / below / above the route
        for sub in (['GET'], ['POST', 'ANY'], ['GET', 'HEAD', 'PUT'], []):
            for kind in ('err404', 'on_route'):
                for cut in (1, 2):
                    for hook_first in (True, False):
                        reqs = [{'req': True, 'method': v, 'path': p} for v in ['GET', 'HEAD', 'POST', 'PUT', 'DELETE'] for p in ['/r/1', '/r', '/r/1/2', '/nope']]
                        steps = [{'op': 'add', 'rule': 0, 'methods': [m], 'as_str': True} for m in sub]
                        hk = [{'op': 'hook', 'kind': kind, 'rule': 0, 'cut': cut, 'methods': [], 'as_str': False}]
                        case = {'asts': [[['lit', '/r/'], ['w', 'x', None, None]]], 'choice': [], 'spell': 0, 'events': (hk + steps if hook_first else steps + hk) + reqs}
                        ctx.guarded(check_case, case)
        ctx.count('hooked_route_grid')
        # requests sent as POST with a verb override header (a before_request hook rewrites REQUEST_METHOD) against every small verb set
        for sub in (['POST'], ['POST', 'DELETE'], ['GET'], ['PUT', 'ANY'], ['DELETE', 'POST', 'GET']):
            steps = [{'op': 'add', 'rule': 0, 'methods': [m], 'as_str': True} for m in sub]
            reqs = [{'req': True, 'method': 'POST', 'path': p, 'override': ov} for ov in (None, 'PUT', 'DELETE', 'GET', 'HEAD', 'PATCH', 'delete') for p in ('/r/1', '/nope')]
            ctx.guarded(check_case, {'asts': [[['lit', '/r/'], ['w', 'x', None, None]]], 'choice': [], 'spell': 0, 'events': steps + reqs})
        ctx.count('verb_override_grid')
        # the override hook in each of its three styles (blind write to the environ dict | request.method read first, then the environ dict written |
        # request[...] assignment) x override verbs in both spellings, and every request followed by a second dispatch of the SAME environ dict with another verb
        for sub in (['GET', 'PUT'], ['POST', 'ANY'], ['GET', 'POST', 'DELETE']):
            steps = [{'op': 'add', 'rule': 0, 'methods': [m], 'as_str': True} for m in sub]
            reqs = [{'req': True, 'method': 'POST', 'path': p, 'override': ov, 'ov_style': style, 'again': again}
                    for style in OV_STYLES for ov in ('PUT', 'put', 'DELETE', 'GET', 'HEAD') for p in ('/r/1', '/nope') for again in (None, 'DELETE', 'GET')]
            reqs += [{'req': True, 'method': v, 'path': '/r/1', 'ov_style': style, 'again': again}
                     for style in OV_STYLES for v in ('GET', 'POST', 'HEAD', 'PATCH') for again in ('DELETE', 'PUT', 'get', 'HEAD', 'POST')]
            ctx.guarded(check_case, {'asts': [[['lit', '/r/'], ['w', 'x', None, None]]], 'choice': [], 'spell': 0, 'events': steps + reqs})
        ctx.count('override_style_and_redispatch_grid')
        # verbs attached / overwritten / removed through the Route object in upper, lower and mixed spelling, each against a table in which the verb is
        # taken, free, or only covered by ANY; the full request set follows every edit
        reqs = [{'req': True, 'method': v, 'path': p} for v in ['GET', 'HEAD', 'POST', 'PUT', 'DELETE', 'get'] for p in ['/r/1', '/nope']]
        for sub in (['GET', 'PUT'], ['GET'], ['ANY', 'POST'], ['HEAD', 'GET', 'POST']):
            for op in ('route_add', 'route_set', 'remove_method'):
                for names in (['GET'], ['get'], ['Get'], ['post', 'put'], ['POST', 'put'], ['delete'], ['head'], ['any']):
                    for as_str in ((True, False) if len(names) == 1 else (False,)):
                        steps = [{'op': 'add', 'rule': 0, 'methods': list(sub), 'as_str': False}]
                        edit = {'op': op, 'rule': 0, 'methods': list(names), 'as_str': as_str, 'raw': True}
                        # ... and afterwards the ordinary API in canonical spelling on top of whatever the Route edit left
                        tail = [{'op': 'add', 'rule': 0, 'methods': [n.upper() for n in names], 'as_str': False, 'via_app': True}] + reqs
                        ctx.guarded(check_case, {'asts': [[['lit', '/r/'], ['w', 'x', None, None]]], 'choice': [], 'spell': 0, 'events': steps + reqs + [edit] + reqs + tail})
        ctx.count('route_object_spelling_grid')
        for reg, rm, req in ((['GET', 'ANY'], ['GET'], 'GET'), (['GET'], ['GET'], 'GET'), (['GET', 'POST'], ['POST'], 'POST'), (['HEAD', 'GET'], ['HEAD'], 'HEAD'), (['ANY'], ['ANY'], 'PUT')):
            ctx.guarded(check_concurrent_overwrite, {'registered': reg, 'overwrite': rm, 'request': req, 'remove': True})
        for reg, over, req in ((['GET'], ['GET'], 'GET'), (['GET', 'POST'], ['POST'], 'POST'), (['GET', 'ANY'], ['GET'], 'GET'), (['GET'], ['GET', 'PUT'], 'HEAD'),
                               (['ANY'], ['ANY'], 'DELETE')):
            ctx.guarded(check_concurrent_overwrite, {'registered': reg, 'overwrite': over, 'request': req})
    if ctx.shard == 0:
        for reg, a, b in ((['GET'], ['add', ['POST'], False], ['add', ['PUT'], False]), (['GET', 'POST'], ['add', ['POST'], True], ['remove', ['GET']]),
                          (['GET', 'POST', 'PUT'], ['remove', ['POST']], ['remove', ['PUT']]), (['GET'], ['add', ['POST', 'DELETE'], False], ['remove', ['GET']]),
                          (['GET'], ['add', ['PUT'], False], ['add', ['PUT'], False]), (['ANY'], ['add', ['GET'], False], ['add', ['ANY'], True])):
            ctx.guarded(check_concurrent_edits, {'registered': reg, 'ops': [a, b]})
    n = 1500 if ctx.tier == "quick" else 20000
    ctx.hyp(case_st(), check_case, n)


def check_concurrent_overwrite(ctx, case):
    """A registration with overwrite=True running on one thread while another thread's request for that verb is being routed:
    the request is answered by the old or by the new handler, never by a 405 / fallback (every single-preemption schedule)."""
    import ombott
    from vlib.sched import Scheduler, BIG
    from checks.c08_threads import relevant
    verbs, over, req = case['registered'], case['overwrite'], case['request']

    def fresh():
        app = ombott.Ombott()
        box = {}
        for v in verbs:
            app.route('/r/<x>', method=v, callback=(lambda v=v: (lambda **kw: box.__setitem__('ran', 'old-' + v) or 'old-' + v))())
        return app, box

    def run(schedule):
        app, box = fresh()
        res = {}

        def registrar():
            if case.get('remove'):
                app.router[{'/r/<x>'}].remove_method(list(over))          # the verb is taken away while a request for it is being dispatched
                return
            app.route('/r/<x>', method=list(over), callback=lambda **kw: box.__setitem__('ran', 'new') or 'new', overwrite=True)

        def requester():
            res['r'] = call_app(app, make_environ(req, '/r/1'))
        sc = Scheduler([registrar, requester], schedule, relevant)
        sc.run()
        for e in sc.errors:
            if e is not None:
                raise CheckFailure(f'thread raised {fmt_exc(e)} under schedule {schedule}')
        r = res['r']
        M = req.upper()
        cands = [M] + (['GET'] if M == 'HEAD' else []) + ['ANY']
        before = next((c for c in cands if c in verbs), None)
        after = next((c for c in cands if c in ((set(verbs) - set(over)) if case.get('remove') else (set(verbs) | set(over)))), None)
        ok_bodies = set()
        if before:
            ok_bodies.add('new' if False else 'old-' + before)
        if after:
            ok_bodies.add('new' if (after in over and not case.get('remove')) else 'old-' + after)
        if before is None or (case.get('remove') and after is None):
            ok_bodies.add('405')
        got = box.get('ran') if r.code == 200 else str(r.code)
        if got not in ok_bodies:
            raise CheckFailure(f'route with {verbs}, overwrite of {over} running concurrently, request {req}: answered {r.status!r} (handler {box.get("ran")}), '
                               f'allowed outcomes {sorted(ok_bodies)}; schedule {schedule}; Allow={r.header("Allow")!r}')
        ctx.evals += 1
        ctx.nontrivial('conc:' + repr((verbs, over, req, schedule)))
        return sc.yields
    y0 = run([[0, BIG]])[0]
    for k in range(0, y0 + 1):
        run([[0, k], [1, BIG], [0, BIG]])
    # ... and the request pre-empted at every step while the edit runs to completion
    y1 = run([[1, BIG]])[1]
    for k in range(0, y1 + 1):
        run([[1, k], [0, BIG], [1, BIG]])
    ctx.count('concurrent_overwrite_schedules', y0 + y1 + 2)


def check_concurrent_edits(ctx, case):
    """Two threads edit the method table of the SAME route at the same time (add further verbs, overwrite, remove): afterwards every verb is
    answered as after one of the two sequential orders (every single-preemption schedule of either thread)."""
    import ombott
    from vlib.sched import Scheduler, BIG
    from checks.c08_threads import relevant
    verbs, ops = case['registered'], case['ops']

    def fresh():
        app = ombott.Ombott()
        for v in verbs:
            app.route('/r/<x>', method=v, callback=(lambda v=v: (lambda **kw: 'old-' + v))())
        return app

    def op_fn(app, i, op, out):
        # the edits go through the Route object (Route.add_method / set_method / remove_method): parsing a rule is not part of what is raced here
        route = app.router[{'/r/<x>'}]

        def fn():
            try:
                if op[0] == 'add':
                    (route.set_method if op[2] else route.add_method)(list(op[1]), (lambda **kw: 'new%d' % i))
                else:
                    route.remove_method(list(op[1]))
                out[i] = 'ok'
            except Exception as e:
                out[i] = type(e).__name__
        return fn

    def signature(app, out):
        sig = []        # (whether a racing duplicate registration is refused is a check-then-act matter outside the property: only the resulting dispatch is judged)
        for v in ['GET', 'HEAD', 'POST', 'PUT', 'DELETE']:
            r = call_app(app, make_environ(v, '/r/1'))
            allow = sorted(x.strip() for x in (r.header('Allow') or '').split(',') if x.strip())
            sig.append((v, r.code, r.body if r.code == 200 and v != 'HEAD' else None, tuple(allow)))
        return sig
    allowed = []
    for order in ((0, 1), (1, 0)):
        app, out = fresh(), {}
        for i in order:
            op_fn(app, i, ops[i], out)()
        allowed.append(signature(app, out))

    def run(schedule):
        app, out = fresh(), {}
        sc = Scheduler([op_fn(app, 0, ops[0], out), op_fn(app, 1, ops[1], out)], schedule, relevant)
        sc.run()
        for e in sc.errors:
            if e is not None:
                raise CheckFailure(f'thread raised {fmt_exc(e)} under schedule {schedule}')
        sig = signature(app, out)
        if sig not in allowed:
            raise CheckFailure(f'route with {verbs}; edits {ops} running concurrently under schedule {schedule}: afterwards the route answers {sig}, '
                               f'after either sequential order it answers {allowed[0]} or {allowed[1]}')
        ctx.evals += 1
        ctx.nontrivial('edits:' + repr((verbs, ops, schedule)))
        return sc.yields
    y = run([[0, BIG], [1, BIG]])
    for k in range(0, y[0] + 1):
        run([[0, k], [1, BIG], [0, BIG]])
    for k in range(0, y[1] + 1):
        run([[1, k], [0, BIG], [1, BIG]])
    ctx.count('concurrent_edit_schedules', y[0] + y[1] + 2)


def replay(ctx, case):
    if 'ops' in case:
        return check_concurrent_edits(ctx, case)
    if 'registered' in case:
        return check_concurrent_overwrite(ctx, case)
    check_case(ctx, case)
