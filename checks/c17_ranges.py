"""C17  Range and conditional requests describe exactly the bytes delivered."""
import email.utils
import os
import re
import shutil
import tempfile

from hypothesis import strategies as st

from vlib.core import CheckFailure, load_corpus, fmt_exc
from vlib.static import serve_static

ID = 'C17'
LEVEL = 'exploration'
RULE = ('case = (file length from {0,1,2,3,...} and around multiples of the streaming buffer; streaming buffer lowered to 1/4/8 bytes through the '
        'default of _file_iter_range (or the real 1 MiB); modification time with and without a sub-second part; Range header: canonical RFC 7233 '
        'spellings "bytes=a-b", "a-", "-n" with positions at 0, 1, len-2..len+1, 2*len, 10^12, leading zeros, multi-range lists (first range '
        'decides), and near misses: spaces, signs, underscores, other units, upper-case unit, reversed, empty parts, junk; If-Modified-Since before '
        '/ equal / after the mtime second in RFC 1123, RFC 850 and asctime form and RFC 1123 with a numeric zone (+0000, +0200, -0500, +0530), each with and without a legacy "; length=N" parameter, or junk; process time zone UTC or a fixed offset (-12 .. +9:30 h); GET and HEAD are both served for '
        'every case). Oracle (own RFC 7233 model): no Range -> 200, whole file, Content-Length = true length; canonical first range satisfiable -> '
        '206 whose Content-Range, Content-Length and bytes all equal the clipped slice; canonical unsatisfiable -> 416; any other Range text -> 416, '
        'or 206 whose three descriptions agree with each other and lie inside the file; no chunk larger than the buffer; If-Modified-Since >= mtime '
        'second -> 304 with empty body, older -> not 304; HEAD -> same status and headers as GET (Date aside), empty body. Non-trivial = a Range '
        'header or a conditional date is present; distinct by case hash.')
ASSUMPTIONS = ['the process time zone is varied over fixed-offset zones (TZ + time.tzset()); zones with daylight-saving rules are not explored', 'static_file is driven from a handler of the default application',
               'the streaming buffer is lowered through the default argument of _file_iter_range (harness-side, no source change)',
               '"canonical" = lower-case unit, no white space, decimal ASCII digits; everything else is judged leniently (416 or a self-consistent 206)']

T0 = 1_000_000_000           # 2001-09-09, inside the two-digit-year window of RFC 850 dates
_STATE = {}


def data_of(n):
    return bytes((i * 7 + 3) % 251 for i in range(n))


def workdir():
    if 'd' not in _STATE:
        _STATE['d'] = os.path.realpath(tempfile.mkdtemp(prefix='verif-c17-'))
    return _STATE['d']


def cleanup():
    d = _STATE.pop('d', None)
    if d:
        shutil.rmtree(d, ignore_errors=True)


SUFFIXES = ['.bin', '.bin', '.bin', '.txt', '.txt.gz', '.tgz', '.svgz', '.tar.bz2', '.xz', '.br', '.Z', '.html', '.json', '']      # (names whose suffix tells mimetypes about a content coding)


def the_file(n, mtime, suffix='.bin'):
    d = workdir()
    name = f'f{n}{suffix}'
    p = os.path.join(d, name)
    if not os.path.exists(p):
        with open(p, 'wb') as f:
            f.write(data_of(n))
    os.utime(p, (mtime, mtime))
    return d, name


def fmt_date(epoch, style):
    """style = base form, optionally '+' a legacy parameter suffix: rfc1123 | rfc850 | asctime | z+0200 (RFC 1123 with a numeric zone) | length (= rfc1123+length)"""
    import time
    if style == 'length':
        style = 'rfc1123+length'
    base, _, suffix = style.partition('+') if not style.startswith('z') else (style.split('|')[0], '', style.partition('|')[2])
    if base == 'rfc850' and time.gmtime(epoch).tm_year > 2068:
        base = 'rfc1123'            # (a two-digit year cannot name a year that far ahead)
    if base == 'rfc1123':
        t = email.utils.formatdate(epoch, usegmt=True)
    elif base == 'rfc850':
        t = time.strftime('%A, %d-%b-%y %H:%M:%S GMT', time.gmtime(epoch))
    elif base == 'asctime':
        tm = time.gmtime(epoch)
        t = time.strftime('%a %b ', tm) + ('%2d' % tm.tm_mday) + time.strftime(' %H:%M:%S %Y', tm)
    elif base.startswith('z'):
        # the same instant written in local time of a numeric zone, e.g. z+0200
        sign = -1 if base[1] == '-' else 1
        off = sign * (int(base[2:4]) * 3600 + int(base[4:6]) * 60)
        t = time.strftime('%a, %d %b %Y %H:%M:%S ', time.gmtime(epoch + off)) + base[1:]
    else:
        raise AssertionError(style)
    return t + {'': '', 'length': '; length=1234', 'length0': ';length=0', 'param': ' ; x=y'}[suffix]


STYLES = ['rfc1123', 'rfc850', 'asctime', 'rfc1123+length', 'rfc850+length', 'asctime+length', 'rfc1123+length0', 'rfc850+length0', 'asctime+param',
          'z+0000', 'z+0200', 'z-0500', 'z+0530', 'z+0200|length', 'z-0500|length0', 'z+0000|length']


# ------------------------------------------------------------------ RFC 7233 model
_CANON = re.compile(r'^bytes=(?:(?P<a>\d+)-(?P<b>\d+)[ \t]*|-(?P<suf>\d+)[ \t]*|(?P<open>\d+)-)(?P<rest>,.*)?$', re.S)        # (optional blanks before the comma of a list - not after an open-ended first range)


def model_range(header, n):
    """-> ('206', start, end_inclusive) | ('416',) | ('lenient',)"""
    m = _CANON.match(header)
    if header.startswith('bytes='):
        first_spec = header[6:].split(',')[0].strip()
        if first_spec and '-' not in first_spec:
            return ('not_a_range',)         # no dash: under no reading does the first element denote a range, so there is no slice a 206 could describe
    if not m or not header.isascii():
        return ('lenient',)
    rest = m.group('rest')
    if rest is not None:
        # the remaining list must itself be well-formed for the header to count as canonical
        for spec in rest[1:].split(','):
            if not re.fullmatch(r'[ \t]*(\d+-\d*|-\d+)[ \t]*', spec):
                return ('lenient',)
            a, _, b = spec.strip().partition('-')
            if a and b and int(b) < int(a):
                return ('lenient',)
    if m.group('suf') is not None:
        suf = int(m.group('suf'))
        if suf == 0 or n == 0:
            return ('416',)
        return ('206', max(0, n - suf), n - 1)
    first = int(m.group('a') if m.group('a') is not None else m.group('open'))
    last = m.group('b') if m.group('b') is not None else ''
    if last != '':
        last = int(last)
        if last < first:
            return ('lenient',)          # syntactically invalid spec: RFC says ignore the header; judged leniently
    if first >= n:
        return ('416',)
    return ('206', first, n - 1 if last == '' else min(last, n - 1))


_CR = re.compile(r'^bytes (\d+)-(\d+)/(\d+)$')


def judge_get(case, r, n, data, buf, what):
    rng = case.get('range')
    ims = case.get('ims')
    mt = case['mtime']
    if r.escaped is not None:
        raise CheckFailure(f'{what}: raised {fmt_exc(r.escaped)}')
    if r.code == 500:
        raise CheckFailure(f'{what}: 500 {r.errors[-600:]}')
    # ---- conditional
    if ims is not None and ims['kind'] != 'junk':
        want304 = ims['epoch'] >= int(mt)
        if want304 and r.code != 304:
            raise CheckFailure(f'{what}: If-Modified-Since {ims["text"]!r} is not older than the file (mtime {mt}) but the answer is {r.status!r}')
        if not want304 and r.code == 304:
            raise CheckFailure(f'{what}: If-Modified-Since {ims["text"]!r} is older than the file (mtime {mt}) but the answer is 304')
    if r.code == 304:
        if r.body != b'':
            raise CheckFailure(f'{what}: 304 with a body of {len(r.body)} bytes')
        return '304'
    # ---- range
    if not rng:
        if r.code != 200:
            raise CheckFailure(f'{what}: no Range header, answer {r.status!r}')
        if case['method'] == 'GET' and r.body != data:
            raise CheckFailure(f'{what}: 200 body ({len(r.body)} bytes) differs from the file ({n} bytes)')
        if r.header('Content-Length') != str(n):
            raise CheckFailure(f'{what}: Content-Length {r.header("Content-Length")!r}, true length {n}')
        return '200'
    m = model_range(rng, n)
    if r.code not in (206, 416):
        raise CheckFailure(f'{what}: Range {rng!r} on a {n}-byte file answered {r.status!r} (expected 206 or 416)')
    if m[0] == 'not_a_range' and r.code != 416:
        raise CheckFailure(f'{what}: the first element of Range {rng!r} has no dash (it names no range) but the answer is {r.status!r} {r.header("Content-Range")!r}')
    if m[0] == '416' and r.code != 416:
        raise CheckFailure(f'{what}: Range {rng!r} is unsatisfiable for a {n}-byte file but the answer is {r.status!r} {r.header("Content-Range")!r}')
    if m[0] == '206' and r.code != 206:
        raise CheckFailure(f'{what}: Range {rng!r} is satisfiable for a {n}-byte file (bytes {m[1]}-{m[2]}) but the answer is {r.status!r}')
    if r.code == 416:
        return '416'
    cr = r.header('Content-Range')
    mm = _CR.match(cr or '')
    if not mm:
        raise CheckFailure(f'{what}: 206 with Content-Range {cr!r}')
    s, e, total = int(mm.group(1)), int(mm.group(2)), int(mm.group(3))
    if total != n or not (0 <= s <= e < n):
        raise CheckFailure(f'{what}: Content-Range {cr!r} does not lie inside the {n}-byte file (Range {rng!r})')
    if m[0] == '206' and (s, e) != (m[1], m[2]):
        raise CheckFailure(f'{what}: Range {rng!r} on {n} bytes: Content-Range {cr!r}, RFC 7233 slice is {m[1]}-{m[2]}')
    cl = r.header('Content-Length')
    if cl != str(e - s + 1):
        raise CheckFailure(f'{what}: Content-Length {cl!r} but Content-Range {cr!r} describes {e - s + 1} bytes')
    if case['method'] == 'GET':
        if r.body != data[s:e + 1]:
            raise CheckFailure(f'{what}: delivered {len(r.body)} bytes {r.body[:24]!r}, Content-Range {cr!r} describes {data[s:e + 1][:24]!r}')
        big = [len(c) for c in r.chunks if len(c) > buf]
        if big:
            raise CheckFailure(f'{what}: chunk of {big[0]} bytes delivered, streaming buffer is {buf}')
        if len(r.chunks) > 1:
            return '206-multichunk'
    return '206'


def _pos(n):
    return st.sampled_from(sorted({0, 1, 2, max(0, n - 2), max(0, n - 1), n, n + 1, 2 * n, 2 * n + 1, 10**12, n // 2, n // 3})) | st.integers(0, max(1, n + 3))


@st.composite
def range_st(draw, n):
    kind = draw(st.sampled_from(['ab', 'ab', 'a-', '-n', 'multi', 'near', 'near', 'junk']))
    a, b = draw(_pos(n)), draw(_pos(n))
    z = draw(st.sampled_from(['', '', '0', '00']))
    if kind == 'ab':
        if draw(st.integers(0, 5)) > 0 and b < a:
            a, b = b, a
        return f'bytes={z}{a}-{b}'
    if kind == 'a-':
        return f'bytes={z}{a}-'
    if kind == '-n':
        return f'bytes=-{z}{draw(st.sampled_from([0, 1, 2, max(0, n - 1), n, n + 1, 10**12]) | st.integers(0, n + 2))}'
    if kind == 'multi':
        first = draw(st.sampled_from([f'{min(a, b)}-{max(a, b)}', f'{a}-', f'-{b}', f'{n}-{n + 5}', f'{n + 1}-', '-0']))
        others = draw(st.one_of(st.lists(st.sampled_from(['0-0', '1-', '-1', f'{n}-', ' 2-3', '5-6 ', '9-8', 'x']), min_size=1, max_size=3),
                                st.sampled_from([9, 64, 199, 200, 201, 256, 1000]).map(lambda k: ['0-0'] * k)))          # (also hundreds of ranges: the first one still decides)
        return 'bytes=' + first + draw(st.sampled_from([',', ', ', ' ,'])) + ','.join(others)
    if kind == 'near':
        return draw(st.sampled_from([
            f'bytes= {a}-{b}', f'bytes={a} - {b}', f'bytes={a}-{b} ', f' bytes={a}-{b}', f'Bytes={a}-{b}', f'BYTES={a}-', f'bytes=+{a}-{b}', f'bytes={a}-+{b}',
            f'bytes=-{a}-{b}', f'bytes={a}--{b}', f'bytes={b}-{a}', 'bytes=-', 'bytes=', 'bytes', f'bytes={a}', f'bytes:{a}-{b}', f'items={a}-{b}',
            f'bytes=1_0-2_0', f'bytes={a}-{b}-', 'bytes=--1', 'bytes=-+1', f'bytes=0x1-0x2', f'bytes={a}.0-{b}', 'bytes=\xb2-\xb3', f'bytes=bytes={a}-{b}',
            f'bytes={a}-{b};q=1', f'bytes=-{n}-', 'bytes=- 1', f'bytes={a}-{b},', f',bytes={a}-{b}', f'bytes=,{a}-{b}', 'bytes=0-0,', f'xbytes={a}-{b}']))
    return draw(st.text(st.sampled_from(list('bytes=-,0123456789 +x')), min_size=1, max_size=12))


@st.composite
def case_st(draw):
    buf = draw(st.sampled_from([1, 4, 8, 8, 8, 1 << 20]))
    k = buf if buf <= 8 else 8
    n = draw(st.sampled_from([0, 1, 2, 3, k - 1, k, k + 1, 2 * k - 1, 2 * k, 2 * k + 1, 3 * k, 3 * k + 2, 25]) | st.integers(0, 40))
    frac = draw(st.sampled_from([0, 0, 0.25, 0.5, 0.999]))
    mtime = T0 + draw(st.integers(0, 10**8)) + frac
    if draw(st.integers(0, 7)) == 0:
        mtime = draw(st.sampled_from([0, 0.5, 1, 1.999, 86400, 2**31 - 1, 2**31, 946684800]))      # boundary times: the epoch itself, the 32-bit edge
    if draw(st.integers(0, 9)) == 0:
        mtime = FUTURE + draw(st.integers(0, 10**6)) + frac          # a modification time ahead of the server clock (clock skew, restored backups)
    # the process may run in any (fixed-offset) time zone: HTTP dates are GMT whatever the zone
    case = {'n': n, 'buf': buf, 'mtime': mtime, 'suffix': draw(st.sampled_from(SUFFIXES)), 'tz': draw(st.sampled_from(['UTC', 'UTC', 'XXX-3', 'YYY5', 'ZZZ-12', 'AAA9:30']))}
    if draw(st.integers(0, 9)) < 7:
        case['range'] = draw(range_st(n))
    if draw(st.integers(0, 9)) < 4:
        kind = draw(st.sampled_from(['before', 'before1', 'equal', 'equal', 'after1', 'after', 'junk']))
        if kind == 'junk':
            case['ims'] = {'kind': 'junk', 'text': draw(st.sampled_from(['yesterday', '0', 'Mon, 99 Foo 2001 00:00:00 GMT', ';', '1000000000', '-1']))}
        else:
            ep = max(0, int(mtime) + {'before': -draw(st.integers(2, 10**6)), 'before1': -1, 'equal': 0, 'after1': 1, 'after': draw(st.integers(2, 10**6))}[kind])
            style = draw(st.sampled_from(['rfc1123', 'rfc1123'] + STYLES))
            case['ims'] = {'kind': kind, 'epoch': ep, 'text': fmt_date(ep, style), 'style': style}
    return case


FUTURE = 4102444800          # 2100-01-01: later than any clock this runs under


def _set_tz(tz):
    import time
    os.environ['TZ'] = tz
    time.tzset()


def _serve(case, method):
    import ombott.static_stream as ss
    _set_tz(case.get('tz') or 'UTC')
    root, name = the_file(case['n'], case['mtime'], case.get('suffix') or '.bin')
    headers = {}
    if case.get('range'):
        headers['Range'] = case['range']
    if case.get('ims'):
        headers['If-Modified-Since'] = case['ims']['text']
    old = ss._file_iter_range.__defaults__
    ss._file_iter_range.__defaults__ = (case['buf'],)
    try:
        return serve_static(name, root, method=method, headers=headers)
    finally:
        ss._file_iter_range.__defaults__ = old
        _set_tz('UTC')


def check_case(ctx, case):
    n = case['n']
    data = data_of(n)
    g = _serve(case, 'GET')
    kind = judge_get(dict(case, method='GET'), g, n, data, case['buf'], f'GET n={n} range={case.get("range")!r}')
    h = _serve(case, 'HEAD')
    judge_get(dict(case, method='HEAD'), h, n, data, case['buf'], f'HEAD n={n} range={case.get("range")!r}')
    if h.body != b'':
        raise CheckFailure(f'HEAD delivered a body of {len(h.body)} bytes (n={n}, range={case.get("range")!r})')
    if h.code != g.code:
        raise CheckFailure(f'HEAD status {h.status!r} differs from GET status {g.status!r} (n={n}, range={case.get("range")!r}, ims={case.get("ims")})')
    hg = sorted((k, v) for k, v in g.headers if k.lower() != 'date')
    hh = sorted((k, v) for k, v in h.headers if k.lower() != 'date')
    if hg != hh:
        raise CheckFailure(f'HEAD headers differ from GET headers (n={n}, range={case.get("range")!r}):\n GET  {hg}\n HEAD {hh}')
    ctx.count('answer_' + kind)
    if case.get('range'):
        m = model_range(case['range'], n)
        ctx.count('range_model_' + m[0])
        if m[0] == '206' and m[2] == n - 1 and m[1] > 0:
            ctx.count('slice_ends_at_last_byte')
        if m[0] == 'lenient' and kind.startswith('206'):
            ctx.count('lenient_header_answered_206')
    if case.get('ims'):
        ctx.count('ims_' + case['ims']['kind'])
        if case['mtime'] != int(case['mtime']):
            ctx.count('ims_with_subsecond_mtime')
    if case.get('range') or case.get('ims'):
        ctx.nontrivial(case, sample=case)


def run(ctx):
    try:
        for name, case in load_corpus(ID):
            ctx.guarded(check_case, case)
            ctx.count('corpus')
        if ctx.shard == 0:
            # exhaustive small scope: every canonical a-b / a- / -n for n <= 6, positions 0..n+2, buffer 1 and 4
            top = 6 if ctx.tier == 'quick' else 10
            for n in range(0, top + 1):
                specs = [f'{a}-{b}' for a in range(n + 3) for b in range(n + 3)] + [f'{a}-' for a in range(n + 3)] + [f'-{a}' for a in range(n + 3)]
                for sp in specs:
                    for buf in (1, 4):
                        ctx.guarded(check_case, {'n': n, 'buf': buf, 'mtime': T0 + 5, 'range': 'bytes=' + sp})
            for suffix in SUFFIXES[3:]:
                for rng in (None, 'bytes=2-5', 'bytes=-3', 'bytes=50-', 'bytes=0-'):
                    ctx.guarded(check_case, {'n': 10, 'buf': 8, 'mtime': T0 + 5, 'range': rng, 'suffix': suffix})
            for d in (-10**6, -1, 0, 1, 10**6):
                for style in ('rfc1123', 'rfc850', 'asctime'):
                    ep = FUTURE + d
                    ctx.guarded(check_case, {'n': 5, 'buf': 8, 'mtime': FUTURE, 'ims': {'kind': 'grid', 'epoch': ep, 'text': fmt_date(ep, style), 'style': style}})
                    ctx.guarded(check_case, {'n': 5, 'buf': 8, 'mtime': FUTURE, 'range': 'bytes=1-2', 'ims': {'kind': 'grid', 'epoch': ep, 'text': fmt_date(ep, style), 'style': style}})
            for n in (0, 10, 50):
                for k in (1, 10, 63, 64, 65, 127, 128, 199, 200, 201, 255, 256, 257, 1000, 5000):
                    for first in ('2-5', '-3', f'{n}-', '0-'):
                        ctx.guarded(check_case, {'n': n, 'buf': 8, 'mtime': T0 + 5, 'range': 'bytes=' + first + ',' + ','.join(['1-1'] * k)})
            for n in (0, 12, 50):
                for rng in ('bytes=10-25 ,30-40', 'bytes=-7 , 0-3', 'bytes=2-5\t,1-1', 'bytes=2-5 , 7-8 ,9-9', 'bytes=0-0 ,-1'):
                    ctx.guarded(check_case, {'n': n, 'buf': 8, 'mtime': T0 + 5, 'range': rng})
            for n in (0, 1, 10, 50):
                for rng in ('bytes=5', 'bytes=0', 'bytes=42,50-60', 'bytes= 7 ', 'bytes=9', 'bytes=3,', 'bytes=1 2', 'bytes=07', 'bytes=5,0-1', 'bytes=0--0', 'bytes=4-', 'bytes=-4'):
                    ctx.guarded(check_case, {'n': n, 'buf': 8, 'mtime': T0 + 5, 'range': rng})
            for frac in (0, 0.5):
                for d in (-7200, -2, -1, 0, 1, 2, 7200):
                    for style in STYLES:
                        ep = T0 + 77 + d
                        ctx.guarded(check_case, {'n': 5, 'buf': 8, 'mtime': T0 + 77 + frac,
                                                 'ims': {'kind': 'grid', 'epoch': ep, 'text': fmt_date(ep, style), 'style': style}})
            for tz in ('XXX-3', 'YYY5', 'ZZZ-12'):
                for d in (-4 * 3600, -3600, -1, 0, 1, 3600, 4 * 3600, 6 * 3600):
                    for style in ('rfc1123', 'rfc850', 'asctime'):
                        ep = T0 + 500000 + d
                        ctx.guarded(check_case, {'n': 4, 'buf': 8, 'mtime': T0 + 500000, 'tz': tz,
                                                 'ims': {'kind': 'grid', 'epoch': ep, 'text': fmt_date(ep, style), 'style': style}})
            for mt in (0, 0.5, 1, 86400):
                for ep in (0, 1, 2, 86400, 86401):
                    ctx.guarded(check_case, {'n': 3, 'buf': 8, 'mtime': mt, 'ims': {'kind': 'grid', 'epoch': ep, 'text': fmt_date(ep, 'rfc1123'), 'style': 'rfc1123'}})
            ctx.count('small_scope_grid')
        n = 2500 if ctx.tier == 'quick' else 25000
        ctx.hyp(case_st(), check_case, n)
    finally:
        cleanup()


def replay(ctx, case):
    try:
        check_case(ctx, case)
    finally:
        cleanup()
