"""C06  Multipart parsing is independent of how the body is split into reads."""
import hashlib

from hypothesis import strategies as st

from vlib.core import CheckFailure, load_corpus, fmt_exc
from vlib.encoders import encode_multipart, sanitize_part_data
from vlib.wsgi import FragStream, make_environ, call_app

ID = 'C06'
LEVEL = 'fault_enumeration'
RULE = ('body = harness-encoded well-formed multipart/form-data (boundary over RFC 2046 bchars incl. hyphen-rich ones, '
        '0-4 parts, CRLF-only header blocks, data from an adversarial alphabet: CR, LF, "-", boundary characters, every '
        'proper prefix of CRLF--boundary; optional CRLF preamble; epilogue none/CRLF/CRLF+text/text). ref[p] = result '
        '(markups, error class) of parsing body[:p] in ONE piece, for every p. A division = cut positions; after every '
        'fed chunk ending at offset p the parser state must equal ref[p] (so a division (i, j) checks both "prefix j cut '
        'at i" and "whole body cut at i and j"). Enumerated per body: all single cuts, byte-at-a-time, regular k-byte '
        'cuts k=1..len(delimiter)+5, double cuts (sampled by hash in quick, exhaustive in thorough for bodies <= 220 '
        'bytes), plus the same body through WSGI under short-read patterns (forms/files compared with the full-read '
        'result). Size dimension: a 12 KiB header block, a 6 KiB data run, and bodies of 50-2500 short parts (one piece == ground truth == final result of '
        'regular divisions from 7 bytes to 16 KiB). Anchors: ref[n] == encoder ground-truth offsets, every ref[p] is error-free and a prefix of ref[n]. '
        'evaluations = divisions fed. Non-trivial division = some cut falls strictly inside a delimiter, a CRLFCRLF, '
        'the closing hyphens (+following CRLF) or the epilogue; distinct = (body hash, cuts).')
ASSUMPTIONS = ['well-formedness comes from the harness encoder (boundary free of CR; header blocks contain no bare CR/LF)',
               'the result of a parse is MultipartMarkup.markups plus the class of MultipartMarkup.error']

BCHARS = "0123456789abcdefghijklmnopqrstuvwxyzABCDEFGHIJKLMNOPQRSTUVWXYZ'()+_,-./:=?"


@st.composite
def body_case(draw):
    boundary = draw(st.one_of(
        st.sampled_from(['b', '--b', 'b-', '-', '--', '---', 'bndbnd', 'a-b', '-x-', 'XX', "b'(", 'bb']),
        st.text(BCHARS, min_size=1, max_size=8),
        st.text('-b', min_size=1, max_size=6),
        st.text(BCHARS, min_size=20, max_size=70)))
    tok = ('\r\n--' + boundary).encode()
    prefixes = ([tok[:i] for i in range(1, len(tok))] + [tok[:-1] + b'_', b'--' + boundary.encode(), boundary.encode()]
                + [tok[i:] for i in range(1, len(tok))][:12])          # ... and suffixes: what a parser still expects after a cut inside a delimiter
    piece = st.one_of(st.sampled_from([b'\r', b'\n', b'-', b'\r\n', b'--', b'\r\n\r\n', b'\n\r\n', b'\r\r\n', b'\r\n-', b'\r\n--']),
                      st.sampled_from(prefixes), st.binary(min_size=1, max_size=3),
                      st.sampled_from([bytes([c]) for c in boundary.encode()]))
    data = st.lists(piece, max_size=10).map(b''.join)
    nparts = draw(st.integers(0, 4))
    parts = []
    for i in range(nparts):
        v, _ = sanitize_part_data(boundary, draw(data))
        p = {'name': draw(st.sampled_from(['a', 'b', 'field', 'f' + str(i)])), 'value': v}
        if draw(st.booleans()):
            p['filename'] = draw(st.sampled_from(['x.txt', 'y', 'z.bin']))
            if draw(st.booleans()):
                p['ctype'] = draw(st.sampled_from(['text/plain', 'application/octet-stream; x=y']))
        parts.append(p)
    preamble = draw(st.sampled_from([b'', b'', b'\r\n', b'\r\n\r\n', b'\r\n\r\n\r\n', b'\r\r\n', b'\r\n-\r\n', b'\r\npreamble text\r\n', b'\r\n\r\n--\r\n']))       # (the parser only accepts bodies that start with the boundary or with CR)
    epilogue = draw(st.one_of(st.sampled_from([b'', b'\r\n', b'\r\nepilogue text', b'text', b'\r\n\r\n', b'--', b'\r', b'\n', b'-']),
                              st.builds(lambda d: b'\r\n' + d, data)))
    return {'boundary': boundary, 'parts': parts, 'preamble': preamble, 'epilogue': epilogue}


def parse_division(boundary, body, cuts):
    """Feed body split at `cuts`; returns list of (offset, snapshot) after each chunk."""
    from ombott.request_pkg.multipart import MultipartMarkup
    m = MultipartMarkup(boundary)
    out = []
    prev = 0
    for c in list(cuts) + [len(body)]:
        if c <= prev:
            continue
        m.parse(body[prev:c])
        prev = c
        out.append((c, (tuple((n, tuple(se)) for n, se in m.markups), type(m.error).__name__ if m.error is not None else None)))
    return out


def one_piece(boundary, data):
    from ombott.request_pkg.multipart import MultipartMarkup
    m = MultipartMarkup(boundary)
    if data:
        m.parse(data)
    return (tuple((n, tuple(se)) for n, se in m.markups), type(m.error).__name__ if m.error is not None else None)


def sensitive_zones(truth, body_len, tok_len):
    """Offsets c such that a cut at c splits a delimiter / CRLFCRLF / closing hyphens+CRLF / epilogue."""
    z = set()
    for s, e in truth['delims']:
        z.update(range(s + 1, e))
        z.update(range(e, min(body_len, e + 3)))      # the CRLF / hyphens right after the boundary
    for s, e in truth['hdr_ends']:
        z.update(range(s + 1, e))
    if truth['close']:
        s, e = truth['close']
        z.update(range(s, body_len))                   # closing hyphens and everything after (epilogue)
    z.discard(0)
    z.discard(body_len)
    return z


def h32(*a):
    return int.from_bytes(hashlib.blake2b(repr(a).encode(), digest_size=4).digest(), 'big')


def wsgi_forms(boundary, body, pattern):
    import ombott
    app = ombott.Ombott({'max_memfile_size': max(4096, 2 * len(body))})
    seen = {}

    @app.route('/m', method='POST')
    def h():
        rq = app.request
        def norm(d):
            o = {}
            for k, v in d.items():
                vs = v if isinstance(v, list) else [v]
                o[k] = [(x if isinstance(x, str) else ('FILE', x.raw_filename, x.file.read())) for x in vs]
            return o
        seen['forms'] = norm(rq.forms)
        seen['files'] = norm(rq.files)
        return 'ok'

    env = make_environ('POST', '/m', stream=FragStream(body, pattern), content_length=len(body),
                       headers={'Content-Type': 'multipart/form-data; boundary=' + boundary})
    r = call_app(app, env)
    if r.escaped is not None:
        raise CheckFailure(f'exception escaped: {fmt_exc(r.escaped)}')
    return (r.code, seen.get('forms'), seen.get('files'))


def check_many_parts(ctx, case):
    """Size dimension: N short parts (tens of KiB). The all-prefix reference is quadratic, so here: one piece == ground truth, and the final
    result of regular divisions (7 bytes .. 16 KiB) and of halves / thirds == the one-piece result."""
    boundary = case['boundary']
    parts = [{'name': 'f%d' % i, 'value': b'v%d' % i} for i in range(case['many_parts'])]
    body, truth = encode_multipart(boundary, parts, b'', case.get('epilogue', b'\r\n'))
    want = (tuple((k, (s, e)) for k, s, e in truth['sections']), None)
    full = one_piece(boundary, body)
    ctx.evals += 1
    if full != want:
        raise CheckFailure(f'one-piece parse of a body with {len(parts)} parts ({len(body)} bytes) differs from the ground truth: {len(full[0])} sections, error {full[1]}; '
                           f'truth has {len(want[0])} sections')
    n = len(body)
    for cuts in [tuple(range(k, n, k)) for k in (7, 512, 4096, 16384)] + [(n // 2,), (n // 3, 2 * n // 3), (n - 1,), (1,)]:
        ctx.evals += 1
        off, snap = parse_division(boundary, body, cuts)[-1]
        if snap != full:
            raise CheckFailure(f'split-dependent result for a body with {len(parts)} parts: division into reads of {cuts[0] if cuts else n} bytes gives {len(snap[0])} sections / '
                               f'error {snap[1]}, one piece gives {len(full[0])} sections / error {full[1]}')
        ctx.nontrivial(('many', len(parts), cuts[:2], len(cuts)))
    ref = wsgi_forms(boundary, body, None)
    got = wsgi_forms(boundary, body, [4000, 100])
    ctx.evals += 2
    if ref != got or ref[0] != 200 or len(ref[1]) != len(parts):
        raise CheckFailure(f'form with {len(parts)} fields through WSGI: status {ref[0]} / {got[0]}, {len(ref[1] or [])} / {len(got[1] or [])} fields delivered')
    ctx.count('many_parts_bodies')


def check_case(ctx, case):
    if case.get('many_parts'):
        return check_many_parts(ctx, case)
    boundary = case['boundary']
    body, truth = encode_multipart(boundary, case['parts'], case['preamble'], case['epilogue'])
    n = len(body)
    tok_len = len(boundary) + 4
    # ---- references: every prefix in one piece
    ref = [one_piece(boundary, body[:p]) for p in range(n + 1)]
    ctx.evals += n + 1
    want = tuple((k, (s, e)) for k, s, e in truth['sections'])
    if ref[n] != (want, None):
        raise CheckFailure(f'one-piece parse differs from the ground truth: body={body!r} boundary={boundary!r}\n got   {ref[n]}\n '
                           f'truth {want}')
    k_prev = 0
    for p in range(n + 1):
        mk, err = ref[p]
        if err is not None:
            raise CheckFailure(f'prefix of a well-formed body reports {err}: body[:{p}]={body[:p]!r} boundary={boundary!r}')
        if mk != want[:len(mk)] or len(mk) < k_prev:
            raise CheckFailure(f'sections of prefix {p} are not a prefix of the full result: {mk} vs {want}; body={body!r}')
        k_prev = len(mk)
    zones = sensitive_zones(truth, n, tok_len)
    bh = hashlib.sha1(body + boundary.encode()).hexdigest()[:12]

    def run_division(cuts, kind):
        ctx.evals += 1
        for off, snap in parse_division(boundary, body, cuts):
            if snap != ref[off]:
                raise CheckFailure(f'split-dependent result ({kind}): boundary={boundary!r} body={body!r} cuts={list(cuts)}: '
                                   f'after the chunk ending at {off} got {snap}, one piece gives {ref[off]}')
        nz = [c for c in cuts if c in zones]
        ctx.count('div_' + kind)
        if nz:
            ctx.nontrivial((bh, tuple(cuts)), sample={'boundary': boundary, 'body': body, 'cuts': list(cuts)})
            ctx.count('div_cut_in_sensitive_zone')

    explicit = case.get('cuts')
    if explicit is not None:
        run_division(explicit, 'explicit')
        return
    for i in range(1, n):
        run_division((i,), 'single')
    run_division(tuple(range(1, n)), 'bytewise')
    for k in range(2, tok_len + 6):
        run_division(tuple(range(k, n, k)), 'regular')
    # double cuts
    exhaustive = ctx.tier == 'thorough' and n <= 220
    budget = 250 if ctx.tier == 'quick' else 1500
    total = (n - 1) * (n - 2) // 2
    if exhaustive or total <= budget:
        for i in range(1, n):
            for j in range(i + 1, n):
                run_division((i, j), 'double')
        ctx.count('bodies_double_cuts_exhaustive')
    else:
        # hash-driven deterministic sample, biased to the sensitive zones
        zl = sorted(zones) or [1]
        t = 0
        while t < budget:
            a = h32(bh, t, 'a')
            b = h32(bh, t, 'b')
            i = zl[a % len(zl)] if t % 3 else 1 + a % (n - 1)
            j = zl[b % len(zl)] if t % 3 == 1 else 1 + b % (n - 1)
            t += 1
            if i == j:
                continue
            run_division(tuple(sorted((i, j))), 'double')
        # triple cuts, few
        for t in range(budget // 10):
            cs = sorted({zl[h32(bh, t, x) % len(zl)] for x in 'xyz'})
            run_division(tuple(cs), 'triple')
    # through WSGI: same body under short-read patterns
    if h32(bh, 'wsgi') % 4 == 0 and n:
        full = wsgi_forms(boundary, body, None)
        ctx.evals += 1
        for t in range(4):
            pat = [1 + h32(bh, t, q) % (tok_len + 3) for q in range(1 + h32(bh, t) % 5)]
            got = wsgi_forms(boundary, body, pat)
            ctx.evals += 1
            if got != full:
                raise CheckFailure(f'forms/files through WSGI depend on read sizes: boundary={boundary!r} body={body!r} '
                                   f'pattern={pat}: {got} vs full-read {full}')
            ctx.count('wsgi_pattern_runs')
    ctx.count('bodies')
    if truth['close'] and case['epilogue']:
        ctx.count('bodies_with_epilogue')
    if len(case['parts']) >= 2:
        ctx.count('bodies_multi_part')


# ------------------------------------------------------------------ coverage-guided tier (atheris)
FUZZ_BOUNDS = ['b', '--b', 'b-', '-', 'bndbnd', 'a-b', 'XX']


def fuzz_decode(data):
    """bytes -> well-formed body by construction: byte 0 boundary, byte 1 preamble/epilogue, byte 2 number of cuts, then parts separated by
    0xFF 0x00 (first byte of a part: bit 0 = file part), the last 2*ncuts bytes are the cut positions."""
    if len(data) < 8:
        return None
    boundary = FUZZ_BOUNDS[data[0] % len(FUZZ_BOUNDS)]
    ncuts = 1 + data[2] % 4
    tail = data[-2 * ncuts:]
    blob = bytes(data[3:-2 * ncuts])
    parts = []
    for i, chunk in enumerate(blob.split(b'\xff\x00')[:4]):
        if not chunk:
            continue
        v, _ = sanitize_part_data(boundary, chunk[1:])
        p = {'name': 'f%d' % i, 'value': v}
        if chunk[0] & 1:
            p['filename'] = 'x.bin'
        parts.append(p)
    epi = [b'', b'\r\n', b'\r\nepilogue', b'text', b'--', b'\r', b'-'][(data[1] >> 1) % 7]
    return {'boundary': boundary, 'parts': parts, 'preamble': b'\r\n' if data[1] & 1 else b'', 'epilogue': epi,
            'fuzz_cuts': [tail[2 * i] * 256 + tail[2 * i + 1] for i in range(ncuts)], 'prefix': data[2] >> 4}


def fuzz_one(ctx, case):
    boundary = case['boundary']
    body, truth = encode_multipart(boundary, case['parts'], case['preamble'], case['epilogue'])
    # every prefix of a well-formed body is in the domain too
    if case['prefix'] % 3 == 0 and len(body) > 2:
        body = body[:1 + (case['fuzz_cuts'][0] * 7 + case['prefix']) % len(body)]
    n = len(body)
    if n < 2:
        return
    cuts = sorted({1 + c % (n - 1) for c in case['fuzz_cuts']})
    for off, snap in parse_division(boundary, body, cuts):
        want = one_piece(boundary, body[:off])
        if snap != want:
            raise CheckFailure(f'split-dependent result (fuzz): boundary={boundary!r} body={body!r} cuts={cuts}: after the chunk ending at {off} got {snap}, '
                               f'one piece gives {want}')


def run(ctx):
    for name, case in load_corpus(ID):
        ctx.guarded(check_case, case)
        ctx.count('corpus')
    if ctx.shard == 0:
        # size dimension: a part whose header block is larger than any plausible fixed limit (12 KiB), cut everywhere
        big = {'boundary': 'bnd', 'preamble': b'', 'epilogue': b'\r\n',
               'parts': [{'name': 'a', 'value': b'one'},
                         {'name': 'f', 'filename': 'x.bin', 'value': b'file\r\n--bn data', 'extra_headers': [('X-Pad-%d' % i, 'p' * 600) for i in range(20)]},
                         {'name': 'z', 'value': b'last'}]}
        ctx.guarded(check_case, big)
        ctx.count('large_header_block_body')
        # ... and a part whose data is much longer than any delimiter window (6 KiB without a delimiter look-alike, then look-alikes), cut everywhere
        bigdata = {'boundary': 'XbnD', 'preamble': b'', 'epilogue': b'\r\n',
                   'parts': [{'name': 'f', 'filename': 'x.bin', 'value': bytes((i * 7 + 3) % 251 for i in range(6000)).replace(b'\r\n--XbnD', b'_') + b'\r\n--Xbn' + b'q' * 700},
                             {'name': 'a', 'value': b'after'}, {'name': 'b', 'value': b''}]}
        ctx.guarded(check_case, bigdata)
        ctx.count('large_data_body')
        # ... and many parts in one read buffer
        for nparts in (50, 400, 490, 500, 520, 1000, 2500):
            ctx.guarded(check_case, {'boundary': 'bnd', 'many_parts': nparts})
    n = 220 if ctx.tier == 'quick' else 400
    ctx.hyp(body_case(), check_case, n)
    if ctx.tier == 'thorough' and ctx.shard < 4:
        from vlib import fuzz
        seed_body = b'\x00\x02\x01' + b'\x00text value\r\n--\xff\x00\x01file\r\ncontent\r\n-' + b'\x00\x30\x00\x61'
        fuzz.campaign(ctx, __import__('checks.c06_multipart_split', fromlist=['x']), runs=300000, max_len=400, seeds=[] if ctx.shard % 2 else [seed_body])


def replay(ctx, case):
    if 'fuzz_cuts' in case:
        return fuzz_one(ctx, case)
    check_case(ctx, case)
