"""C04  Content-Length bodies arrive byte-exact under any read fragmentation."""
import itertools

from hypothesis import strategies as st

from vlib.core import CheckFailure, load_corpus, fmt_exc
from vlib.wsgi import FragStream, make_environ, call_app

ID = 'C04'
LEVEL = 'fault_enumeration'
RULE = ('case = (stream bytes incl. sentinel tail, Content-Length below/equal/above the bytes available, buffer = '
        'max_memfile_size, read-fragmentation pattern = caps for successive read() calls, entry point '
        '_body_read | Request.body through WSGI read twice, content type none / octet-stream / JSON / urlencoded / multipart with a well-formed body whose closing delimiter '
        'is followed by an epilogue, max_body_size unset, >= Content-Length incl. equal, or below it (413 expected, the read audit still applies); wsgi.input = fragmenting stream, a real seekable stream that stands behind the bytes of an earlier request, or an unbuffered io.RawIOBase stream (readinto with short reads) that holds more than the declared length; between the two reads of request.body the handler may re-assign CONTENT_TYPE / a re-spelled CONTENT_LENGTH / a header / the query string through request[...]; declared lengths up to 2^31 with an early end of stream; the wsgi.input_terminated flag set or not; Content-Length spelled with leading zeros; any request method incl. HEAD and TRACE; an earlier body-less request on the same application whose handler closed or wrote into its empty body; an earlier request with its own Content-Length body served over the SAME wsgi.input stream object (keep-alive connection, another environ dict): each request gets its own bytes and the read audit starts anew; a well-formed JSON / urlencoded body of which the handler reads all / a part / nothing through request.body BEFORE it first asks for request.json / forms / POST / params: the parsed view is that of the whole body). Plus two bodies read concurrently on two threads (readinto and read streams), every single-preemption schedule. Hypothesis-generated plus exhaustive enumeration of all '
        'compositions (cap sequences) of every body length <= 9 for buffers 1..11. Oracle: body == first '
        'min(CL, available) stream bytes; no read(n) asks for more than CL minus bytes already delivered; no '
        'read(-1). Non-trivial = at least one short read happened, or CL != available, or the body spilled to a '
        'temporary file; distinct by case hash.')
ASSUMPTIONS = ['a WSGI server stream may return fewer bytes than requested and returns b"" only at EOF',
               'Content-Length is a non-negative decimal integer (the server validated it)']


MP_BODY = (b'--bnd\r\nContent-Disposition: form-data; name="a"\r\n\r\nvalue one\r\n--bnd\r\nContent-Disposition: form-data; name="f"; filename="x.bin"\r\n'
           b'Content-Type: application/octet-stream\r\n\r\nfile \r\n--bn content\r\n--bnd--')
CTYPES = [None, None, 'application/octet-stream', 'multipart/form-data; boundary=bnd', 'multipart/form-data; boundary=bnd', 'application/json', 'application/x-www-form-urlencoded',
          'multipart/mixed; boundary=bnd', 'text/plain']


# well-formed bodies whose parsed view is known to the harness: (body bytes, expected request.json, expected request.forms == POST == params (no query string))
_JDOC = {'event': 'push', 'ids': [1, 2, 3], 'sig': 'x' * 40, 'nested': {'a': None, 'b': [True, 1.5]}}
_JLIST = [1, 'two', {'three': 3}, 'y' * 70]
_FORM = {'user': 'alice', 'token': '0123456789abcdef', 'note': 'hello world', 'sym': '=&+%', 'e': ''}
VIEW_DOCS = {
    'application/json': [(__import__('json').dumps(_JDOC).encode(), _JDOC, _JDOC), (__import__('json').dumps(_JLIST, indent=1).encode(), _JLIST, {}), (b'{"k": "v"}', {'k': 'v'}, {'k': 'v'})],
    'application/x-www-form-urlencoded': [(b'user=alice&token=0123456789abcdef&note=hello+world&sym=%3D%26%2B%25&e=', None, _FORM), (b'k=v', None, {'k': 'v'})],
}
VIEWS = [{'attr': a, 'read': k} for a in ('json', 'forms', 'POST', 'params') for k in (None, 0, 1, 11, 1000)]


def _strategy():
    def build(data, clmode, delta, buf, pattern, via, anycl, ctype, mp, epi, maxb, stream_kind, huge, term, reassign, first_read, view, keep):
        doc = None
        if view and ctype in VIEW_DOCS:
            doc = VIEW_DOCS[ctype][delta % len(VIEW_DOCS[ctype])][0]
            data = doc + data[:delta % 7]                    # a well-formed document followed by a few sentinel bytes
            clmode = 'doc'
            buf = max(buf, len(doc))                         # (a non-multipart body is parsed only up to max_memfile_size)
        if mp and ctype and ctype.startswith('multipart/'):
            data = MP_BODY + epi + data[:delta % 7]          # a well-formed multipart body (closing delimiter + epilogue) followed by a few sentinel bytes
            if clmode == 'eq':
                clmode = 'mp'
        n = len(data)
        if clmode == 'eq':
            cl = n
        elif clmode == 'below':
            cl = max(0, n - delta)
        elif clmode == 'above':
            cl = n + delta
        elif clmode == 'mp':
            cl = len(MP_BODY + epi)
        elif clmode == 'doc':
            cl = len(doc)
        else:
            cl = anycl
        if huge is not None and clmode in ('above', 'any'):
            cl = huge                                   # a large declared length with an early end of stream (aborted upload)
        case = {'data': data, 'cl': cl, 'buf': buf, 'pattern': pattern, 'via': via if ctype is None else 'wsgi', 'ctype': ctype}
        if term is not None:
            case['via'] = 'wsgi'
            case['input_terminated'] = term
            if term and clmode == 'any':
                case['cl'] = cl = 0
        if maxb is not None:
            case['max_body'] = max(0, cl + maxb)         # >= 0: a limit the body does not exceed (equal when maxb == 0); < 0: the body is over the limit
            if maxb < 0:
                case['via'] = 'wsgi'
        if stream_kind and case['via'] == 'wsgi':
            case['stream'] = stream_kind
        if case['via'] == 'wsgi' and huge is None and delta % 5 == 0:
            case['cl_zeros'] = 1 + delta % 4
        if case['via'] == 'wsgi' and delta % 3 == 0:
            case['method'] = ['PUT', 'PATCH', 'DELETE', 'GET', 'HEAD', 'OPTIONS', 'TRACE', 'REPORT', 'post'][delta % 9]
        if case['via'] == 'wsgi' and delta % 7 == 0:
            case['earlier'] = ['close', 'write', 'read'][delta % 3]
        if case['via'] == 'wsgi' and delta % 11 == 0:
            case['second_object'] = ['copy', 'request'][delta % 2]
            if anycl % 2:
                case['interleave'] = anycl % 50
        if reassign and case['via'] == 'wsgi' and maxb is None:
            case['reassign'] = reassign
            case['first_read'] = first_read
        if doc is not None:
            case['view'] = dict(view, doc=delta % len(VIEW_DOCS[ctype]))
        if keep is not None and case['via'] == 'wsgi' and maxb is None:
            case['keepalive'] = keep                         # length of the body of an earlier request served over the same stream object
        return case
    data = st.one_of(st.binary(max_size=40), st.binary(min_size=30, max_size=220))
    return st.builds(
        build, data,
        st.sampled_from(['eq', 'eq', 'below', 'above', 'any']),
        st.integers(1, 70), st.one_of(st.integers(1, 16), st.integers(1, 64), st.integers(1, 300)),
        st.one_of(st.just([]), st.lists(st.integers(1, 9), min_size=1, max_size=8),
                  st.lists(st.integers(1, 80), min_size=1, max_size=12)),
        st.sampled_from(['direct', 'direct', 'wsgi']),
        st.integers(0, 400),
        st.sampled_from(CTYPES), st.booleans(), st.sampled_from([b'', b'\r\n', b'\r\nepilogue text', b'\r\n\r\nmore']),
        st.sampled_from([None, None, None, 0, 0, 1, 1000, -1, -7, -1000]),
        st.sampled_from([None, None, None, 'bytesio_at_offset', 'bufferedreader_at_offset', 'rawio', 'rawio']),
        st.sampled_from([None, None, None, 2**20, 2**20 + 1, 3 * 2**20, 2**31]), st.sampled_from([None, None, None, True, True, False]),
        st.sampled_from([None, None, None, 'ctype', 'cl_respelled', 'header', 'query']), st.sampled_from([None, 0, 1, 7, 1000]),
        st.sampled_from([None] + VIEWS), st.sampled_from([None, None, None, 0, 1, 9, 40, 300]))


def _read_direct(case, stream):
    from ombott.request_pkg.body_mixin import _body_read
    body = _body_read(stream.read, case['buf'], content_length=case['cl'])
    body.seek(0)
    got = body.read()
    spilled = type(body).__name__ != 'BytesIO'
    body.close()
    return got, spilled


def _read_wsgi(case, stream):
    import ombott
    cfg = {'max_memfile_size': case['buf']}
    if case.get('max_body') is not None:
        cfg['max_body_size'] = case['max_body']
    app = ombott.Ombott(cfg)
    seen = {}

    if case.get('earlier'):
        # an earlier request without a body on the same application whose handler closes (or writes into) the empty body object it was given
        @app.route('/e', method=['GET', 'POST'])
        def e():
            f = app.request.body
            if case['earlier'] == 'close':
                f.close()
            elif case['earlier'] == 'write':
                f.write(b'junk left by an earlier request')
            else:
                f.read()
            return 'e'
        for em, ecl in (('GET', None), ('POST', 0)):
            call_app(app, make_environ(em, '/e', body=b'', content_length=ecl))

    if case.get('keepalive') is not None:
        # an earlier request of the same connection: another environ dict, the SAME stream object, its own Content-Length body in front of ours
        n1 = case['keepalive']

        @app.route('/k', method='POST')
        def k():
            seen['k'] = app.request.body.read()
            return 'k'
        rk = call_app(app, make_environ('POST', '/k', stream=stream, content_length=n1, headers={'Content-Type': 'application/octet-stream'}))
        if rk.escaped is not None or rk.code != 200:
            raise CheckFailure(f'earlier request on the connection ({n1}-byte body): {rk.status!r} {fmt_exc(rk.escaped) if rk.escaped else rk.errors[-300:]}')
        if seen.get('k') != keepalive_body(n1):
            raise CheckFailure(f'earlier request on the connection: body of {n1} bytes arrived as {seen.get("k")!r:.80}')
        if stream_consumed(stream) != n1:
            raise CheckFailure(f'earlier request on the connection declared {n1} bytes, {stream_consumed(stream)} were consumed from the stream')
        stream_rebase(stream, n1)          # harness bookkeeping only: the recorded reads / offsets count from the start of our body from here on

    @app.route('/b', method=['POST', 'PUT', 'PATCH', 'DELETE', 'GET', 'HEAD', 'OPTIONS', 'TRACE', 'REPORT'])
    def h():
        rq = app.request
        view = case.get('view')
        if view:
            # the handler looks at the raw body first (all of it, a few bytes, or just obtains it), only then asks for the parsed view for the first time
            f0 = rq.body
            if view['read'] is None:
                f0.read()
            elif view['read']:
                f0.read(view['read'])
            v = getattr(rq, view['attr'])
            seen['view'] = v if view['attr'] == 'json' else dict(v)
        f1 = rq.body
        b1 = f1.read() if case.get('first_read') is None else f1.read(case['first_read']) + f1.read()
        ra = case.get('reassign')
        if ra == 'ctype':
            rq['CONTENT_TYPE'] = 'application/x-verif; v=2'          # a handler correcting the declared media type after looking at the body
        elif ra == 'cl_respelled':
            rq['CONTENT_LENGTH'] = '0' + str(case['cl'])             # same length, other spelling
        elif ra == 'header':
            rq['HTTP_X_VERIF'] = 'changed'
        elif ra == 'query':
            rq['QUERY_STRING'] = 'changed=1'
        b2 = rq.body.read()          # "rewound on every access"
        seen['b1'], seen['b2'] = b1, b2
        if case.get('second_object'):
            # a second request object over the same environ (a hook, a nested component, copy()): it presents the same body, whatever the first one has read
            r2 = rq.copy() if case['second_object'] == 'copy' else ombott.Request(rq.environ)
            seen['b3'] = r2.body.read()
            if case.get('interleave') is not None:
                # reads through the two objects interleaved: a part through the first, everything through the second, then the first one from the start again
                # (through the file object obtained at the start: after copy() the application's request object may be bound to the copy - open finding K10-copy)
                f1.seek(0)
                part = f1.read(case['interleave'])
                mid = r2.body.read()
                f1.seek(0)
                again = f1.read()
                f2 = r2.body
                f2.seek(0)
                seen['inter'] = (part == b1[:case['interleave']], mid == b1, again == b1, f2.read() == b1)
        seen['spilled'] = type(rq.body).__name__ != 'BytesIO'
        return b1

    extra = {}
    if case.get('input_terminated') is not None:
        extra['wsgi.input_terminated'] = case['input_terminated']       # a server flag; Content-Length still bounds the body
    # (Content-Length = 1*DIGIT: leading zeros spell the same number)
    # (any method may carry a body: whether it has one is said by Content-Length, not by the verb)
    env = make_environ(case.get('method') or 'POST', '/b', stream=stream, content_length='0' * (case.get('cl_zeros') or 0) + str(case['cl']), headers=({'Content-Type': case['ctype']} if case.get('ctype') else None), extra=extra)
    r = call_app(app, env)
    if r.escaped is not None:
        raise CheckFailure(f'exception escaped: {fmt_exc(r.escaped)}')
    if case.get('max_body') is not None and case['max_body'] < min(case['cl'], len(case['data'])):
        if r.code != 413:
            raise CheckFailure(f'body of {min(case["cl"], len(case["data"]))} bytes over max_body_size={case["max_body"]} answered {r.status!r}')
        return None, False
    if r.code != 200:
        raise CheckFailure(f'status {r.status!r} for a plain Content-Length body; errors: {r.errors[-600:]}')
    if seen.get('b1') != seen.get('b2'):
        raise CheckFailure(f'second access to request.body differs: {seen.get("b1")!r} vs {seen.get("b2")!r}')
    if case.get('second_object') and seen.get('b3') != seen.get('b1'):
        raise CheckFailure(f'a second request object over the same environ ({case["second_object"]}) presents {len(seen.get("b3") or b"")} body bytes, the first one {len(seen.get("b1") or b"")}')
    if case.get('interleave') is not None and seen.get('inter') != (True, True, True, True):
        raise CheckFailure(f'reads interleaved between two request objects over one body ({case["second_object"]}, {len(seen.get("b1") or b"")} bytes, first {case["interleave"]} read through the first object, '
                           f'then all through the second, then the first from the start): (part, second, first again, second again) correct = {seen.get("inter")}')
    if case.get('view'):
        _, wj, wf = VIEW_DOCS[case['ctype']][case['view']['doc']]
        want = wj if case['view']['attr'] == 'json' else wf
        if seen.get('view') != want:
            raise CheckFailure(f'request.{case["view"]["attr"]} asked for the first time after request.body.read({"" if case["view"]["read"] is None else case["view"]["read"]}) is not the parsed view of the '
                               f'whole {case["cl"]}-byte {case["ctype"]} body: got {seen.get("view")!r:.300}, want {want!r:.300}')
    if r.body != seen.get('b1') and (case.get('method') or 'POST') != 'HEAD':
        raise CheckFailure('echoed body differs from what the handler read')
    return seen['b1'], seen['spilled']


def keepalive_body(n):
    return bytes(0x61 + (i * 5) % 26 for i in range(n))


def stream_consumed(stream):
    return stream.f.tell() - stream.base if isinstance(stream, OffsetStream) else stream.pos


def stream_rebase(stream, n):
    stream.requests.clear()
    if isinstance(stream, OffsetStream):
        stream.base += n
        stream.total -= n
    else:
        stream.data = stream.data[n:]
        stream.pos -= n


class RawStream(__import__('io').RawIOBase):
    """An unbuffered io.RawIOBase stream (what socket.SocketIO / io.FileIO are): readinto() with short reads; the data continues beyond
    the declared length (a pipelined next request). Records the reads like FragStream."""

    def __init__(self, data, pattern):
        super().__init__()
        self.data, self.pattern = data, list(pattern or [])
        self.pos = 0
        self.i = 0
        self.requests = []
        self.neg_reads = 0

    def readable(self):
        return True

    def readinto(self, b):
        n = len(b)
        cap = self.pattern[self.i % len(self.pattern)] if self.pattern else n
        self.i += 1
        out = self.data[self.pos:self.pos + min(n, cap)]
        self.requests.append((n, self.pos, len(out)))
        b[:len(out)] = out
        self.pos += len(out)
        return len(out)


class OffsetStream:
    """A real seekable stream (io.BytesIO / io.BufferedReader) that already stands behind earlier bytes of the connection
    (the previous request); records the reads like FragStream."""
    PREFIX = b'POST /previous HTTP/1.1\r\nContent-Length: 9\r\n\r\nprev-body'

    def __init__(self, data, kind):
        import io
        raw = io.BytesIO(self.PREFIX + data)
        self.f = raw if kind == 'bytesio_at_offset' else io.BufferedReader(raw)
        self.f.seek(len(self.PREFIX))
        self.base = len(self.PREFIX)
        self.requests = []
        self.neg_reads = 0
        self.total = len(data)

    def read(self, n=-1):
        pos = self.f.tell() - self.base
        if n is None or n < 0:
            self.neg_reads += 1
        out = self.f.read(n)
        self.requests.append((n if (n is not None and n >= 0) else self.total - pos, pos, len(out)))
        return out

    def seek(self, *a):
        return self.f.seek(*a)

    def tell(self):
        return self.f.tell()

    def seekable(self):
        return True

    def readable(self):
        return True


def check_case(ctx, case):
    data, cl, buf = case['data'], case['cl'], case['buf']
    wire = data
    if case.get('keepalive') is not None and case['via'] == 'wsgi':
        wire = keepalive_body(case['keepalive']) + data
    if case.get('stream') == 'rawio':
        stream = RawStream(wire, case['pattern'])
    else:
        stream = OffsetStream(wire, case['stream']) if case.get('stream') else FragStream(wire, case['pattern'])
    try:
        got, spilled = (_read_wsgi if case['via'] == 'wsgi' else _read_direct)(case, stream)
    except CheckFailure:
        raise
    except Exception as e:
        raise CheckFailure(f'reader raised {type(e).__name__}: {fmt_exc(e)}')
    expect = data[:min(cl, len(data))]
    if got is None:
        ctx.count('over_max_body_size_413')          # refused: only the read audit below applies
    elif got != expect:
        raise CheckFailure(f'body mismatch: CL={cl} available={len(data)} buf={buf} pattern={case["pattern"]}: '
                           f'got {len(got)} bytes {got[:40]!r}, expected {len(expect)} bytes {expect[:40]!r}')
    if stream.neg_reads:
        raise CheckFailure('read() without a size / negative size issued on wsgi.input')
    delivered = 0
    short = False
    for n, pos, k in stream.requests:
        if pos < 0:
            raise CheckFailure(f'the stream was repositioned before the start of this request body (read at offset {pos}): bytes of an earlier request were read')
        if n > cl - delivered:
            raise CheckFailure(f'read({n}) issued with only {cl - delivered} bytes owed (CL={cl}, delivered={delivered})')
        if k < n and pos + k < len(data):
            short = True
        delivered += k
    if delivered > cl:
        raise CheckFailure(f'{delivered} bytes consumed from the stream, Content-Length is {cl}')
    ctx.count('via_' + case['via'])
    if spilled:
        ctx.count('spilled')
    if short:
        ctx.count('short_reads')
    if cl < len(data):
        ctx.count('cl_below')
    elif cl > len(data):
        ctx.count('cl_above_early_eof')
    if case.get('ctype'):
        ctx.count('with_content_type')
        if case['ctype'].startswith('multipart/') and data.startswith(MP_BODY):
            ctx.count('wellformed_multipart_body')
    if case.get('max_body') is not None:
        ctx.count('max_body_size_configured')
        if case['max_body'] == cl:
            ctx.count('content_length_equals_max_body_size')
    if case.get('stream') == 'rawio':
        ctx.count('raw_unbuffered_stream')
    elif case.get('stream'):
        ctx.count('seekable_stream_positioned_after_earlier_bytes')
    if case.get('reassign'):
        ctx.count('request_key_reassigned_between_two_body_reads')
    if case.get('keepalive') is not None and case['via'] == 'wsgi':
        ctx.count('earlier_request_with_a_body_over_the_same_stream_object')
    if case.get('view') and got is not None:
        ctx.count('parsed_view_first_asked_for_after_reading_request_body')
    if case.get('cl_zeros'):
        ctx.count('content_length_spelled_with_leading_zeros')
    if cl >= 2**20:
        ctx.count('declared_length_of_a_megabyte_or_more')
    if case.get('input_terminated'):
        ctx.count('wsgi_input_terminated_flag')
        if cl == 0 and data:
            ctx.count('wsgi_input_terminated_with_content_length_0')
    if short or spilled or cl != len(data):
        ctx.nontrivial(case, sample=case)


def check_threaded(ctx, case):
    """Two Content-Length bodies read at the same time on two threads of one application (streams with readinto(), or plain read()): both arrive
    byte-exact under every single-preemption schedule of either thread."""
    import ombott
    from vlib.sched import Scheduler, BIG
    from checks.c08_threads import relevant
    n = case['n']
    bodies = [bytes((0x41 + (i * 3 + t * 11) % 23) for i in range(n)) for t in (0, 1)]

    def run(schedule):
        app = ombott.Ombott({'max_memfile_size': case['buf']})
        got = {}

        @app.route('/b/<t:int>', method='POST')
        def h(t):
            got[t] = app.request.body.read()
            return 'ok'

        def fn(t):
            def f():
                stream = RawStream(bodies[t] + b'##', [max(1, case['buf'] // 2)]) if case['stream'] == 'rawio' else FragStream(bodies[t] + b'##', [max(1, case['buf'] // 2)])
                r = call_app(app, make_environ('POST', '/b/%d' % t, stream=stream, content_length=n))
                if r.escaped is not None or r.code != 200:
                    raise CheckFailure(f'thread {t}: {r.status!r} {fmt_exc(r.escaped) if r.escaped else r.errors[-300:]}')
            return f
        sc = Scheduler([fn(0), fn(1)], schedule, relevant)
        sc.run()
        for e in sc.errors:
            if e is not None:
                raise CheckFailure(f'thread raised {fmt_exc(e)[-600:]} under schedule {schedule}')
        for t in (0, 1):
            if got.get(t) != bodies[t]:
                raise CheckFailure(f'two {n}-byte bodies read concurrently ({case["stream"]} streams, buffer {case["buf"]}) under schedule {schedule}: thread {t} got '
                                   f'{(got.get(t) or b"")[:40]!r}..., sent {bodies[t][:40]!r}...')
        ctx.evals += 1
        ctx.nontrivial('thr:' + repr((case['stream'], n, schedule)))
        return sc.yields
    y = run([[0, BIG], [1, BIG]])
    step = max(1, y[0] // 400)
    for k in range(0, y[0] + 1, step):
        run([[0, k], [1, BIG], [0, BIG]])
    ctx.count('threaded_single_preemption_schedules', len(range(0, y[0] + 1, step)))


def compositions(n):
    if n == 0:
        yield []
        return
    for bits in itertools.product([0, 1], repeat=n - 1):
        parts, cur = [], 1
        for b in bits:
            if b:
                parts.append(cur)
                cur = 1
            else:
                cur += 1
        parts.append(cur)
        yield parts


def run(ctx):
    for name, case in load_corpus(ID):
        ctx.guarded(check_threaded if case.get('threaded') else check_case, case)
        ctx.count('corpus')
    # exhaustive small scope: every composition of every length <= N, buffers 1..B (shard 0 only)
    if ctx.shard == 0:
        N, B = (9, 11) if ctx.tier == 'quick' else (12, 14)
        for n in range(0, N + 1):
            data = bytes(range(65, 65 + n)) + b'##'       # 2 sentinel bytes beyond the declared length
            for parts in compositions(n):
                for buf in range(1, B + 1):
                    ctx.guarded(check_case, {'data': data, 'cl': n, 'buf': buf, 'pattern': parts + [1], 'via': 'direct'})
        ctx.count('exhaustive_compositions_upto_len', N)
        for cl in (0, 1, 5, 2**20, 2**20 + 7):
            for n_ in (0, 3, 40):
                for term in (True, False, None):
                    for buf in (4, 64):
                        c = {'data': bytes(range(65, 65 + n_)), 'cl': cl, 'buf': buf, 'pattern': [3], 'via': 'wsgi', 'ctype': None}
                        if term is not None:
                            c['input_terminated'] = term
                        ctx.guarded(check_case, c)
        ctx.count('declared_length_grid')
        # an unbuffered raw stream holding more than the declared length; a request key re-assigned between two reads of the body (in memory and spilled)
        for n_ in (0, 1, 9, 100, 3072):
            for extra in (1, 50, 9000):
                for pattern in ([], [1], [7], [16, 3]):
                    for buf in (8, 64, 102400):
                        ctx.guarded(check_case, {'data': bytes(65 + i % 26 for i in range(n_ + extra)), 'cl': n_, 'buf': buf, 'pattern': pattern, 'via': 'wsgi', 'ctype': None, 'stream': 'rawio'})
        for ra in ('ctype', 'cl_respelled', 'header', 'query'):
            for first in (None, 0, 1, 7):
                for buf in (8, 102400):
                    for ct in (None, 'application/json', 'text/plain'):
                        ctx.guarded(check_case, {'data': bytes(65 + i % 26 for i in range(40)) + b'##', 'cl': 40, 'buf': buf, 'pattern': [5], 'via': 'wsgi', 'ctype': ct,
                                                 'reassign': ra, 'first_read': first})
        ctx.count('raw_stream_and_reassign_grid')
        for z in (1, 2, 5):
            for n_ in (0, 1, 16, 300):
                for buf in (8, 102400):
                    for pattern in ([], [1], [7]):
                        ctx.guarded(check_case, {'data': bytes(65 + i % 26 for i in range(n_)) + b'##', 'cl': n_, 'buf': buf, 'pattern': pattern, 'via': 'wsgi', 'ctype': None, 'cl_zeros': z})
        ctx.count('leading_zero_grid')
        for method in ('POST', 'PUT', 'PATCH', 'DELETE', 'GET', 'HEAD', 'OPTIONS', 'TRACE', 'REPORT', 'head', 'trace'):
            for n_ in (0, 1, 40, 300):
                for buf in (8, 102400):
                    for earlier in (None, 'close', 'write', 'read'):
                        ctx.guarded(check_case, {'data': bytes(65 + i % 26 for i in range(n_)) + b'##', 'cl': n_, 'buf': buf, 'pattern': [7], 'via': 'wsgi', 'ctype': None, 'method': method,
                                                 'earlier': earlier})
        ctx.count('method_and_earlier_request_grid')
        for so in ('copy', 'request'):
            for n_ in (0, 1, 40, 3000):
                for buf in (8, 102400):
                    for first in (None, 0, 7, 100):
                        ctx.guarded(check_case, {'data': bytes(65 + i % 26 for i in range(n_)) + b'##', 'cl': n_, 'buf': buf, 'pattern': [9], 'via': 'wsgi', 'ctype': None, 'second_object': so,
                                                 'first_read': first})
        for so in ('copy', 'request'):
            for n_ in (40, 3000, 9000, 70000):
                for buf in (8, 102400):
                    for k in (0, 1, 16, 5000):
                        ctx.guarded(check_case, {'data': bytes(65 + (i * 7) % 26 for i in range(n_)) + b'##', 'cl': n_, 'buf': buf, 'pattern': [4096], 'via': 'wsgi', 'ctype': None, 'second_object': so,
                                                 'interleave': k})
        ctx.count('second_request_object_grid')
        # an earlier request with a body over the same stream object (keep-alive): every stream kind, in memory and spilled
        for kind in (None, 'rawio', 'bytesio_at_offset', 'bufferedreader_at_offset'):
            for n1 in (0, 1, 40, 3000):
                for n_ in (0, 1, 40, 3000):
                    for buf in (8, 102400):
                        for pattern in ([], [7]):
                            c = {'data': bytes(65 + i % 26 for i in range(n_)) + b'##', 'cl': n_, 'buf': buf, 'pattern': pattern, 'via': 'wsgi', 'ctype': None, 'keepalive': n1}
                            if kind:
                                c['stream'] = kind
                            ctx.guarded(check_case, c)
        ctx.count('keepalive_grid')
        # request.body read (all / part / not at all) before the first access to a parsed view
        for ct, docs in VIEW_DOCS.items():
            for di, (doc, _, _) in enumerate(docs):
                for v in VIEWS:
                    for buf in (len(doc), 102400):
                        for pattern in ([], [5]):
                            ctx.guarded(check_case, {'data': doc + b'##', 'cl': len(doc), 'buf': buf, 'pattern': pattern, 'via': 'wsgi', 'ctype': ct, 'view': dict(v, doc=di)})
        ctx.count('parsed_view_after_body_read_grid')
        for kind in ('rawio', 'frag'):
            for n_ in (5, 40, 2048):
                ctx.guarded(check_threaded, {'threaded': True, 'stream': kind, 'n': n_, 'buf': 16 if n_ < 100 else 1024})
    n = 5000 if ctx.tier == 'quick' else 40000
    ctx.hyp(_strategy(), check_case, n)


def replay(ctx, case):
    if case.get('threaded'):
        return check_threaded(ctx, case)
    check_case(ctx, case)
