"""C15  Cookies round-trip; forged signed cookies are never deserialised."""
import base64
import hashlib
import hmac
import pickle

from hypothesis import strategies as st

from vlib.core import CheckFailure, load_corpus, fmt_exc
from vlib.wsgi import make_environ, call_app

ID = 'C15'
LEVEL = 'exploration'
RULE = ('round trip: 1-3 cookies (names over the legal cookie-name alphabet; plain values = non-empty text up to U+00FF incl. separators, quotes, '
        'backslash, controls, Latin-1; signed values = nested picklable data, secrets = non-empty text or bytes) set through response.set_cookie inside a '
        'handler (on the application response or on a returned / raised response object, under statuses 200-500 incl. 204 and 304), the emitted Set-Cookie header values are handed back verbatim by a harness "browser" as one Cookie header, and read with '
        'request.get_cookie / request.cookies. Tampering, per signed cookie value S = "!sig?msg": every single-byte substitution position x sampled '
        'replacement bytes (all 64 base64 characters at the last significant character of sig and msg), every deletion, every truncation length, '
        'insertion of non-alphabet / padding / whitespace bytes at every position, signature swapped with another cookie, other secret, other name, the value re-presented under a shorter / longer name with the moved characters spliced into payload or signature, signatures made with related keys (empty, NUL runs, prefixes / suffixes / single bytes / case variants of the secret), '
        'appended bytes, and canary payloads (pickle whose __reduce__ calls a recorder) under wrong / missing / unkeyed signatures. Oracle: '
        'untampered -> value equal; a presented value that is not a string signed with that secret for that name -> default, and neither the '
        'pickle.loads proxy nor a canary fired. Values that are or refer to importable objects (os.stat_result, socket constants, functions and builtins pickled by reference, datetime, Decimal, ...) must read back equal. A response copied with copy() and the same names set again on the other object still emits its own values. Object graphs: signed values with shared and cyclic references (fixed shapes + generated graphs of 1-4 containers) must read back with the same shape (containers numbered in visiting order). Concurrency: a thread signing with secret NEW against a thread verifying a cookie signed with OLD under NEW (and a genuine one), every single-preemption schedule under the deterministic scheduler. Non-trivial: round trip = value with a character outside the legal-unquoted set or signed nested '
        'data; tamper = every distinct (cookie, tampered string) pair.')
ASSUMPTIONS = ['the browser returns name=value exactly as emitted (bytes of the header viewed as Latin-1)',
               'empty plain values are outside the domain ("" is the deletion marker of this API)',
               'names starting with "$" or equal to a cookie attribute name are outside the domain (RFC 2109 reserved; http.cookies refuses / reinterprets them)',
               'unforgeability is searched over structural tamper classes, not against cryptanalysis of HMAC-MD5',
               'plain values with code points >= U+0100 are excluded by construction (open known finding K15) and counted']

NAME_CHARS = "abcdefghijklmnopqrstuvwxyzABCDEFGHIJKLMNOPQRSTUVWXYZ0123456789!#$%&'*+-.^_`|~:"
RESERVED = {'expires', 'path', 'comment', 'domain', 'max-age', 'secure', 'httponly', 'version', 'samesite', 'partitioned'}
B64 = 'ABCDEFGHIJKLMNOPQRSTUVWXYZabcdefghijklmnopqrstuvwxyz0123456789+/'
SENTINEL = '<default>'

NAME = st.one_of(st.sampled_from(['a', 'b', 'sid', 'session', 'A', 'x-y', 'n.1', '!k', "it's", 'a:b', '~', 'user_id']),
                 st.text(NAME_CHARS, min_size=1, max_size=8)).filter(lambda n: n.lower() not in RESERVED and not n.startswith('$'))
_l1 = st.characters(min_codepoint=0, max_codepoint=0xff)
PLAIN = st.one_of(
    st.sampled_from(['v', 'hello world', 'a;b', 'a,b', 'a=b', '"q"', 'back\\slash', '\\', '"', 'é', 'ÿ', 'Ã©', 'Â£5', '\x00', '\r\n', ' lead', 'trail ',
                     '!sig?msg', '!?', 'a b;c="d"\\e', '\\073', '\\"', "'", '%41', 'x' * 200, '\x7f', '\x80\xbf', 'Ã\xa9', ';', ',', ' ']),
    st.text(_l1, min_size=1, max_size=10),
    st.text(st.sampled_from(list(' ;,="\\\'abc\xe9\xc3\xa9\x00\n\x7f\x80\xff')), min_size=1, max_size=8))
PLAIN_WIDE = st.text(st.characters(exclude_categories=['Cs']), min_size=1, max_size=6)

_leaf = st.one_of(st.none(), st.booleans(), st.integers(-2**70, 2**70), st.floats(allow_nan=False), st.text(max_size=8), st.binary(max_size=8))
DATA = st.recursive(_leaf, lambda ch: st.one_of(st.lists(ch, max_size=3), st.lists(ch, max_size=3).map(tuple),
                                                st.dictionaries(st.one_of(st.text(max_size=3), st.integers(0, 9)), ch, max_size=3)), max_leaves=8)
SECRET = st.one_of(st.sampled_from(['s', 'secret', 'k e y', 'é', '日本', '0', '\x00']), st.text(min_size=1, max_size=8),
                   st.sampled_from([b'secret', b'\x01\x02@', b'k', b'\x00\x10 ', b'\xff\xfe']), st.binary(min_size=1, max_size=6))


def to_plain(x):
    """picklable data -> JSON-able description (for replay files)"""
    if isinstance(x, bytes):
        return {'$bytes': x.hex()}
    if isinstance(x, tuple):
        return {'$tuple': [to_plain(v) for v in x]}
    if isinstance(x, list):
        return [to_plain(v) for v in x]
    if isinstance(x, dict):
        return {'$dict': [[to_plain(k), to_plain(v)] for k, v in x.items()]}
    if isinstance(x, float):
        return {'$float': repr(x)}
    if isinstance(x, int) and not isinstance(x, bool) and abs(x) > 2**53:
        return {'$int': str(x)}
    return x


def from_plain(x):
    if isinstance(x, dict):
        if '$bytes' in x:
            return bytes.fromhex(x['$bytes'])
        if '$b' in x:
            return x['$b'] if isinstance(x['$b'], bytes) else bytes.fromhex(x['$b'])
        if '$tuple' in x:
            return tuple(from_plain(v) for v in x['$tuple'])
        if '$dict' in x:
            return {from_plain(k): from_plain(v) for k, v in x['$dict']}
        if '$float' in x:
            return float(x['$float'])
        if '$int' in x:
            return int(x['$int'])
    if isinstance(x, list):
        return [from_plain(v) for v in x]
    return x


@st.composite
def rt_case(draw):
    names = draw(st.lists(NAME, min_size=1, max_size=3, unique=True))
    cookies = []
    for n in names:
        if draw(st.booleans()):
            cookies.append({'name': n, 'secret': draw(SECRET), 'data': to_plain(draw(DATA))})
        else:
            wide = draw(st.integers(0, 9)) == 0
            cookies.append({'name': n, 'secret': None, 'value': draw(PLAIN_WIDE if wide else PLAIN)})
    return {'cookies': cookies, 'status': draw(st.sampled_from([None, None, None, 201, 204, 304, 304, 404, 500])), 'via': draw(st.sampled_from(['response', 'response', 'returned', 'raised', 'copied', 'copy_returned', 'both_returned', 'both_raised'])),
            'prime': draw(st.sampled_from([None, None, 'zz=1', names[0] + '=stale', names[0] + '="!bm9wZQ==?bm9wZQ=="'])),
            # set_cookie calls that fail (and are caught by the handler) before / after the successful ones: [when, index of the name, kind of failure]
            'failed': draw(st.one_of(st.just([]), st.just([]), st.lists(st.tuples(st.sampled_from(['before', 'after']), st.integers(0, 2), st.sampled_from(FAIL_KINDS)), min_size=1, max_size=3)))}


FAIL_KINDS = ['unpicklable', 'nonstr_plain', 'too_long', 'too_long_signed', 'bad_option', 'other_name']


def failing_set(target, name, kind):
    """A set_cookie call that raises; the handler catches it and carries on.  Returns False if it did not raise (nothing is judged then)."""
    try:
        if kind == 'unpicklable':
            target.set_cookie(name, lambda: 0, secret='k')
        elif kind == 'nonstr_plain':
            target.set_cookie(name, 12345)
        elif kind == 'too_long':
            target.set_cookie(name, 'v' * 5000)
        elif kind == 'too_long_signed':
            target.set_cookie(name, 'v' * 5000, secret='k')
        elif kind == 'bad_option':
            target.set_cookie(name + 'x', 'v', no_such_attribute=1)
        else:
            target.set_cookie(name + '\x00;', lambda: 0, secret='k')
    except Exception:
        return True
    return False


# ----------------------------------------------------------------- harness browser
def set_and_collect(cookies, status=None, via='response', failed=()):
    """Serve one request whose handler sets the cookies (on the application's response, or on a response object it returns / raises,
    under any status); return {name: emitted 'name=value' string}."""
    import ombott
    app = ombott.Ombott()

    def h():
        if via in ('both_returned', 'both_raised'):
            target = None
        else:
            target = app.response if via in ('response', 'copied', 'copy_returned') else ombott.HTTPResponse('body', status or 200)
        for when, i, kind in (failed if target is not None else ()):
            if when == 'before':
                failing_set(target, cookies[i % len(cookies)]['name'], kind)
        for c in (cookies if target is not None else ()):
            if c['secret'] is not None:
                target.set_cookie(c['name'], from_plain(c['data']), secret=c['secret'])
            else:
                target.set_cookie(c['name'], c['value'])
        for when, i, kind in (failed if target is not None else ()):
            if when == 'after':
                failing_set(target, cookies[i % len(cookies)]['name'], kind)
        if via in ('both_returned', 'both_raised'):
            # the handler first sets the names on the application's response (with other values), then answers with a response object of its own
            # carrying the cookies: what the client gets is what the answered object holds
            for cc in cookies:
                if cc['secret'] is not None:
                    app.response.set_cookie(cc['name'], ['stale', 'value'], secret=cc['secret'])
                else:
                    app.response.set_cookie(cc['name'], 'stale-value-on-the-application-response')
            target = ombott.HTTPResponse('body', status or 200)
            for cc in cookies:
                if cc['secret'] is not None:
                    target.set_cookie(cc['name'], from_plain(cc['data']), secret=cc['secret'])
                else:
                    target.set_cookie(cc['name'], cc['value'])
            if via == 'both_raised':
                raise target
            return target
        if via in ('copied', 'copy_returned'):
            # the response is copied (what redirect() does); afterwards the SAME names are set again on the other object
            if status:
                app.response.status = status
            c = app.response.copy(cls=ombott.HTTPResponse)
            other = c if via == 'copied' else app.response
            for cc in cookies:
                if cc['secret'] is not None:
                    other.set_cookie(cc['name'], ['set', 'again', 'on the other object'], secret=cc['secret'])
                else:
                    other.set_cookie(cc['name'], 'set-again-on-the-other-object')
            if via == 'copied':
                return 'ok'
            c.body = 'body'
            return c
        if via == 'response':
            if status:
                app.response.status = status
            return 'ok'
        if via == 'raised':
            raise target
        return target
    app.route('/set', callback=h)
    r = call_app(app, make_environ('GET', '/set'))
    if r.escaped is not None or r.code != (status or 200):
        raise CheckFailure(f'setting cookies {cookies!r} failed: {r.status!r} {r.errors[-600:]} {fmt_exc(r.escaped) if r.escaped else ""}')
    out = {}
    for v in r.header_all('Set-Cookie'):
        # no attributes are set, so the header value is exactly name=value (";" inside a value is octal-escaped by the emitter)
        out[v.split('=', 1)[0]] = v
    return out


def read_back(cookie_header, reads, prime=None, on_primed=None):
    """reads = [(name, secret)] -> [(jar value, get_cookie result)] through a request object.
    prime: the request object first carries (and is asked about) another Cookie header, which is then replaced through request[...]."""
    import ombott
    if prime is None:
        rq = ombott.Request(make_environ('GET', '/get', headers={'Cookie': cookie_header}))
    else:
        rq = ombott.Request(make_environ('GET', '/get', headers={'Cookie': prime}))
        _ = rq.cookies
        for n, s in reads:
            rq.get_cookie(n, SENTINEL, secret=s) if s is not None else rq.get_cookie(n, SENTINEL)
        rq['HTTP_COOKIE'] = cookie_header
        if on_primed:
            on_primed()
    jar = rq.cookies
    return [(jar.get(n), rq.get_cookie(n, SENTINEL, secret=s) if s is not None else rq.get_cookie(n, SENTINEL)) for n, s in reads]


def same(a, b):
    return a == b and repr(a) == repr(b)


def check_roundtrip(ctx, case):
    cookies = case['cookies']
    wide = [c for c in cookies if c['secret'] is None and any(ord(ch) > 0xff for ch in c['value'])]
    if wide:
        # open known finding K15: excluded from the search by construction, counted
        ctx.exclude('plain_value_above_U+00FF(K15)', len(wide))
        cookies = [c for c in cookies if c not in wide]
        if not cookies:
            return
    failed = [tuple(f) for f in case.get('failed') or ()]
    emitted = set_and_collect(cookies, case.get('status'), case.get('via') or 'response', failed)
    if failed:
        ctx.count('failing_set_cookie_calls_around_the_successful_ones')
        for k in [k for k in emitted if k not in {c['name'] for c in cookies} and any(f[2] in ('bad_option',) for f in failed)]:
            del emitted[k]          # (a cookie whose attribute was refused after the value had been stored: not one of the cookies judged)
    if set(emitted) != {c['name'] for c in cookies}:
        raise CheckFailure(f'Set-Cookie headers {emitted!r} do not cover the cookies set {[c["name"] for c in cookies]!r}')
    header = '; '.join(emitted[c['name']] for c in cookies)
    try:
        header.encode('latin1')
    except UnicodeError:
        raise CheckFailure(f'emitted cookie is not Latin-1: {header!r}')
    got = read_back(header, [(c['name'], c['secret']) for c in cookies], prime=case.get('prime'))
    if case.get('status'):
        ctx.count('cookie_set_under_status_%s' % case['status'])
    if case.get('prime'):
        ctx.count('cookie_header_replaced_on_a_request_already_asked')
    nontriv = False
    for c, (jar, val) in zip(cookies, got):
        if c['secret'] is None:
            if val != c['value'] or jar != c['value']:
                raise CheckFailure(f'plain cookie {c["name"]!r}={c["value"]!r} emitted as {emitted[c["name"]]!r} reads back as '
                                   f'get_cookie={val!r} cookies[...]={jar!r}')
            legal = all(ch in NAME_CHARS for ch in c['value'])
            if not legal:
                nontriv = True
                ctx.count('plain_needs_quoting')
            if any(ord(ch) > 127 for ch in c['value']):
                ctx.count('plain_latin1')
        else:
            want = from_plain(c['data'])
            if not same(val, want):
                raise CheckFailure(f'signed cookie {c["name"]!r} (secret {c["secret"]!r}) value {want!r} reads back as {val!r}; emitted {emitted[c["name"]]!r}')
            if isinstance(want, (list, tuple, dict)):
                nontriv = True
                ctx.count('signed_nested')
            else:
                ctx.count('signed_scalar')
    if len(cookies) > 1:
        ctx.count('several_cookies_in_one_header')
    if nontriv:
        ctx.nontrivial(case, sample=case)


# ----------------------------------------------------------------- tampering
class LoadsSpy:
    """Counts every call that reaches the unpickler while active (pickle.loads / pickle.load / pickle.Unpickler)."""

    def __init__(self):
        self.calls = 0
        self.canary = 0

    def __enter__(self):
        self._orig = (pickle.loads, pickle.load)
        spy = self

        def loads(*a, **kw):
            spy.calls += 1
            return spy._orig[0](*a, **kw)

        def load(*a, **kw):
            spy.calls += 1
            return spy._orig[1](*a, **kw)
        pickle.loads, pickle.load = loads, load
        global _ACTIVE_SPY
        _ACTIVE_SPY = self
        return self

    def __exit__(self, *a):
        pickle.loads, pickle.load = self._orig
        global _ACTIVE_SPY
        _ACTIVE_SPY = None


_ACTIVE_SPY = None


def _canary_fired(token):
    if _ACTIVE_SPY is not None:
        _ACTIVE_SPY.canary += 1
    return ('canary', token)


class Canary:
    def __init__(self, token):
        self.token = token

    def __reduce__(self):
        return (_canary_fired, (self.token,))


def quote_cookie_value(t):
    """Cookie-header spelling of an arbitrary string (quoted-string with backslash / octal escapes)."""
    if t and all(ch in NAME_CHARS for ch in t):
        return t
    out = ['"']
    for ch in t:
        o = ord(ch)
        if ch in '"\\':
            out.append('\\' + ch)
        elif o < 0x20 or o >= 0x7f or ch in ';,':
            out.append('\\%03o' % o if o < 256 else ch)
        else:
            out.append(ch)
    out.append('"')
    return ''.join(out)


def tamper_variants(S, other_sig, tier_full):
    """Yield (kind, T) with T != S."""
    assert S.startswith('!') and '?' in S
    q = S.index('?')
    sig, msg = S[1:q], S[q + 1:]
    n = len(S)
    # positions of the last significant base64 character of sig and of msg
    special = set()
    for start, part in ((1, sig), (q + 1, msg)):
        core = part.rstrip('=')
        if core:
            special.add(start + len(core) - 1)
    for i in range(n):
        ch = S[i]
        if i in special or tier_full:
            reps = B64 + '=-_'
        else:
            k = B64.find(ch)
            reps = {B64[(k + 1) % 64], B64[(k ^ 1) % 64] if k >= 0 else 'A', 'A', '=', '?', '!', ch.swapcase()}
        for r in reps:
            if r != ch:
                yield 'substitute', S[:i] + r + S[i + 1:]
        yield 'delete', S[:i] + S[i + 1:]
        for ins in ('-', '_', '.', ' ', '!', '~', '=', '\n', 'A', '?'):
            yield 'insert', S[:i] + ins + S[i:]
    for k in range(n):
        yield 'truncate', S[:k]
    for tail in ('=', '==', 'A', ' ', '\n', '?', '?' + msg, S):
        yield 'append', S + tail
    if other_sig and other_sig != sig:
        yield 'sig_swap', '!' + other_sig + '?' + msg
    yield 'no_sig', '!?' + msg
    yield 'sig_is_md5_of_msg', '!' + base64.b64encode(hashlib.md5(msg.encode()).digest()).decode() + '?' + msg
    yield 'double_sep', '!' + sig + '??' + msg
    yield 'lower', S.lower()
    yield 'upper', S.upper()


@st.composite
def tamper_case(draw):
    n1, n2 = draw(st.lists(NAME, min_size=2, max_size=2, unique=True))
    s1 = draw(SECRET)
    # a really different key: str / bytes spellings of the same bytes, and trailing NULs (HMAC pads keys with NULs), are the same key
    kb = lambda s: (s if isinstance(s, bytes) else s.encode('utf8')).rstrip(b'\0')   # noqa
    s2 = draw(SECRET.filter(lambda s: kb(s) != kb(s1)))
    return {'name': n1, 'other_name': n2, 'secret': s1, 'other_secret': s2, 'data': to_plain(draw(DATA)), 'other_data': to_plain(draw(DATA))}


def check_tamper(ctx, case, full=False):
    name, oname, secret, osecret = case['name'], case['other_name'], case['secret'], case['other_secret']
    kb = lambda s: (s if isinstance(s, bytes) else s.encode('utf8')).rstrip(b'\0')   # noqa
    if kb(secret) == kb(osecret):
        ctx.exclude('other_secret_is_the_same_hmac_key')
        return
    data = from_plain(case['data'])
    cookies = [{'name': name, 'secret': secret, 'data': case['data']},
               {'name': oname, 'secret': secret, 'data': case['other_data']}]
    emitted = set_and_collect(cookies)
    foreign = set_and_collect([{'name': name, 'secret': osecret, 'data': case['data']}])
    # on ONE request object: the right secret, then another secret (must read as absent), then the right one again
    (jar1, v1), (_, vwrong), (_, vagain), (jar2, v2) = read_back('; '.join(emitted.values()), [(name, secret), (name, osecret), (name, secret), (oname, secret)])
    if vwrong != SENTINEL:
        raise CheckFailure(f'cookie {name!r} read with another secret ({osecret!r}) on a request object that had just verified it with the right one -> {vwrong!r}')
    if not same(vagain, from_plain(case['data'])):
        raise CheckFailure(f'cookie {name!r} read again with the right secret after a read with a wrong one -> {vagain!r}')
    (_, vw2), (_, vr2) = read_back('; '.join(emitted.values()), [(name, osecret), (name, secret)])
    if vw2 != SENTINEL or not same(vr2, from_plain(case['data'])):
        raise CheckFailure(f'cookie {name!r}: wrong secret first -> {vw2!r}, then the right one -> {vr2!r}')
    if not same(v1, data):
        raise CheckFailure(f'untampered signed cookie does not read back: {v1!r} vs {data!r}')
    S, S2 = jar1, jar2
    (Sf, _), = read_back(foreign[name], [(name, osecret)])
    if not (isinstance(S, str) and S.startswith('!') and '?' in S):
        raise CheckFailure(f'signed cookie value has unexpected shape {S!r}')
    valid = {S: name, S2: oname}          # strings genuinely signed with `secret`
    sig2 = S2[1:S2.index('?')]
    variants = list(tamper_variants(S, sig2, full or ctx.tier == 'thorough'))
    variants.append(('other_secret', Sf))
    variants.append(('other_name', S2))
    # related-key forgeries: the same payload signed (by the harness' own signer) with keys derived from the secret or trivially guessable
    def _sign(key, msg):
        kb = key if isinstance(key, bytes) else key.encode('utf8')
        return base64.b64encode(hmac.new(kb, msg.encode(), digestmod=hashlib.md5).digest()).decode()
    sb = secret if isinstance(secret, bytes) else secret.encode('utf8')
    related = [b'', b'\0', b'\0' * 16, b'\0' * 64, sb[:1], sb[1:], sb[:-1], sb + b'\0', sb + sb, sb[::-1], sb.lower(), sb.upper(), sb.strip(), b' ' + sb, repr(secret).encode(),
               str(list(sb)).encode()] + [bytes([x]) for x in sb[:8]] + [b'\0' * x for x in sb[:8]]
    msg0 = S[S.index('?') + 1:]
    # (HMAC pads a key with NUL bytes up to its block size: keys that differ only in trailing NULs are the same key)
    related = [rk for rk in related if rk.rstrip(b'\0') != sb.rstrip(b'\0')]
    for rk in related:
        variants.append(('related_key', '!' + _sign(rk, msg0) + '?' + msg0))
    # canary payloads: attacker-made pickles under signatures that are not valid for `secret`
    msg_c = base64.b64encode(pickle.dumps((name, Canary('c1')), -1)).decode()
    sig = S[1:S.index('?')]
    bad_key_sig = base64.b64encode(hmac.new(osecret if isinstance(osecret, bytes) else osecret.encode('utf8'), msg_c.encode(), digestmod=hashlib.md5).digest()).decode()
    for rk in related[:6]:
        variants.append(('canary_related_key', '!' + _sign(rk, msg_c) + '?' + msg_c))
    for label, sg in (('canary_orig_sig', sig), ('canary_no_sig', ''), ('canary_garbage_sig', 'AAAAAAAAAAAAAAAAAAAAAA=='), ('canary_wrong_key_sig', bad_key_sig),
                      ('canary_md5_sig', base64.b64encode(hashlib.md5(msg_c.encode()).digest()).decode())):
        variants.append((label, '!' + sg + '?' + msg_c))
    # splices between the cookie name and the payload / signature: presented under another name so that name + payload (or name + signature ...) spell the same text
    variants = [(k_, T_, name) for k_, T_ in variants]
    for k in range(1, len(name)):
        variants.append(('name_suffix_moved_into_payload', '!' + sig + '?' + name[k:] + msg0, name[:k]))
        variants.append(('name_suffix_moved_into_signature', '!' + name[k:] + sig + '?' + msg0, name[:k]))
        variants.append(('name_suffix_moved_before_value', name[k:] + S, name[:k]))
    for k in range(1, 5):
        if all(ch in NAME_CHARS for ch in msg0[:k]):
            variants.append(('payload_prefix_moved_into_name', '!' + sig + '?' + msg0[k:], name + msg0[:k]))
        if all(ch in NAME_CHARS for ch in sig[:k]):
            variants.append(('signature_prefix_moved_into_name', '!' + sig[k:] + '?' + msg0, name + sig[:k]))
    variants.append(('bang_moved_into_name', S[1:], name + '!'))
    seen = set()
    for kind, T, rname in variants:
        if (T, rname) in seen or (T == S and rname == name):
            continue
        seen.add((T, rname))
        ctx.evals += 1
        with LoadsSpy() as spy:
            try:
                # every third variant is presented to a request object that has just read the GENUINE cookie (the header is then replaced through request[...])
                prime = (name + '=' + quote_cookie_value(S)) if (len(seen) % 3 == 0) else None
                (jar, val), = read_back(rname + '=' + quote_cookie_value(T), [(rname, secret)], prime=prime, on_primed=lambda: setattr(spy, 'calls', 0))
            except Exception as e:
                raise CheckFailure(f'reading a tampered cookie raised ({kind}): {T!r} under the name {rname!r}: {fmt_exc(e)}')
        if rname != name:
            ctx.count('tamper_' + kind)
            if val != SENTINEL or spy.calls or spy.canary:
                raise CheckFailure(f'({kind}) cookie {name!r}={S!r} re-presented as {rname!r}={T!r} was accepted -> {val!r} ({spy.calls} unpickler calls)')
            ctx.nontrivial('t:' + rname + ':' + S + ':' + T)
            continue
        ctx.count('tamper_' + kind)
        if jar in valid:
            # the jar delivered a genuinely signed string (e.g. the other cookie's): value only if it is this name's
            want = data if valid[jar] == name else SENTINEL
            if not same(val, want):
                raise CheckFailure(f'({kind}) cookie {name!r} presented with a string signed for {valid[jar]!r} reads {val!r}, expected {want!r}')
            continue
        if val != SENTINEL:
            raise CheckFailure(f'({kind}) tampered signed cookie accepted: original {S!r}, presented {T!r} (jar {jar!r}) -> {val!r}')
        if spy.calls or spy.canary:
            raise CheckFailure(f'({kind}) payload of a tampered cookie was deserialised ({spy.calls} unpickler calls, {spy.canary} canaries): '
                               f'original {S!r}, presented {T!r}')
        ctx.nontrivial('t:' + name + ':' + S + ':' + T)
    ctx.sample({'signed': S, 'tampered_examples': [v[1] for v in variants[:3]] + [variants[-1][1][:60]]})


# ----------------------------------------------------------------- concurrent use of two secrets (the harness owns the schedule)
def check_threaded(ctx, case):
    """Thread A signs a cookie with secret NEW while thread B verifies a cookie that was signed with secret OLD, presenting NEW
    (must read as absent, payload never deserialised) -- and B verifying a cookie genuinely signed with NEW (must read back).
    Every single-preemption schedule of A against B and of B against A."""
    import ombott
    from vlib.sched import Scheduler, BIG
    from checks.c08_threads import relevant
    old, new, name = case['old'], case['new'], case['name']
    s_old = set_and_collect([{'name': name, 'secret': old, 'data': case['data']}])[name]
    s_new = set_and_collect([{'name': name, 'secret': new, 'data': case['data']}])[name]
    data = from_plain(case['data'])
    results = {}

    def prime():
        # the most recently used secret is OLD when the threads start
        read_back(s_old, [(name, old)])

    def a_sign():
        r = ombott.Response()
        r.set_cookie(name, data, secret=new)
        return [v for k, v in r.headerlist if k == 'Set-Cookie']

    def b_verify_foreign():
        with LoadsSpy() as spy:
            (jar, val), = read_back(s_old, [(name, new)])
        results['foreign'] = (val, spy.calls, spy.canary)

    def b_verify_genuine():
        (jar, val), = read_back(s_new, [(name, new)])
        results['genuine'] = val

    def run(fns, schedule):
        prime()
        results.clear()
        sc = Scheduler(fns, schedule, relevant)
        sc.run()
        for e in sc.errors:
            if e is not None:
                raise CheckFailure(f'thread raised {fmt_exc(e)} under schedule {schedule}')
        if 'foreign' in results:
            val, calls, canary = results['foreign']
            if val != SENTINEL or calls or canary:
                raise CheckFailure(f'cookie signed with secret {old!r} was accepted under secret {new!r} (value {val!r}, {calls} unpickler calls) while another thread '
                                   f'was signing with {new!r}; schedule {schedule}')
        if 'genuine' in results and not same(results['genuine'], data):
            raise CheckFailure(f'cookie genuinely signed with {new!r} read back as {results["genuine"]!r} while another thread was signing; schedule {schedule}')
        ctx.evals += 1
        ctx.nontrivial('thr:' + repr((old, new, schedule)))
        return sc.yields

    for fns in ([a_sign, b_verify_foreign], [b_verify_foreign, a_sign], [a_sign, b_verify_genuine], [b_verify_genuine, a_sign]):
        y0 = run(fns, [[0, BIG]])[0]
        for k in range(0, y0 + 1):
            run(fns, [[0, k], [1, BIG], [0, BIG]])
        ctx.count('threaded_single_preemption_schedules', y0 + 1)


def check_sequence(ctx, case):
    """One name and one secret, a sequence of values that are equal under == but differ in type / representation
    (1, True, 1.0; 0, False, 0.0, -0.0; tuples thereof): every value must read back exactly, whatever was signed before."""
    name, secret = case['name'], case['secret']
    for v in case['values']:
        data = from_plain(v)
        emitted = set_and_collect([{'name': name, 'secret': secret, 'data': v}])
        (jar, val), = read_back(emitted[name], [(name, secret)])
        if not same(val, data):
            raise CheckFailure(f'signed cookie {name!r}: value {data!r} set after {case["values"]!r}[:...] reads back as {val!r}')
        ctx.evals += 1
    ctx.nontrivial('seq:' + repr(case))


# ----------------------------------------------------------------- values that are object graphs, not trees (shared and cyclic references)
GRAPH = st.integers(1, 4).flatmap(lambda n: st.lists(
    st.fixed_dictionaries({'t': st.sampled_from(['list', 'dict']),
                           'edges': st.lists(st.one_of(st.integers(0, n - 1).map(lambda i: ['ref', i]), st.sampled_from([['leaf', 1], ['leaf', 'x'], ['leaf', None]])), max_size=4)}),
    min_size=n, max_size=n))
FIXED_GRAPHS = {
    'list_containing_itself': [{'t': 'list', 'edges': [['ref', 0]]}],
    'one_list_referenced_twice': [{'t': 'list', 'edges': [['ref', 1], ['ref', 1]]}, {'t': 'list', 'edges': [['leaf', 1]]}],
    'dict_containing_itself': [{'t': 'dict', 'edges': [['leaf', 'x'], ['ref', 0]]}],
    'parent_child_back_link': [{'t': 'dict', 'edges': [['ref', 1]]}, {'t': 'list', 'edges': [['ref', 0], ['leaf', None]]}],
    'diamond': [{'t': 'list', 'edges': [['ref', 1], ['ref', 2]]}, {'t': 'list', 'edges': [['ref', 3]]}, {'t': 'dict', 'edges': [['ref', 3]]}, {'t': 'list', 'edges': [['leaf', 'x']]}],
    'same_dict_forty_times': [{'t': 'list', 'edges': [['ref', 1]] * 40}, {'t': 'dict', 'edges': [['leaf', 'x'], ['leaf', 1]]}],
}


def build_graph(nodes):
    objs = [[] if n['t'] == 'list' else {} for n in nodes]
    for o, n in zip(objs, nodes):
        for k, (kind, x) in enumerate(n['edges']):
            v = objs[x] if kind == 'ref' else x
            if n['t'] == 'list':
                o.append(v)
            else:
                o['k%d' % k] = v
    return objs[0]


def fingerprint(root):
    """canonical description of the object graph reachable from root: containers numbered in visiting order, sharing and cycles as back references"""
    num, out, todo = {}, [], [root]
    num[id(root)] = 0
    while todo:
        o = todo.pop(0)
        items = list(o.items()) if isinstance(o, dict) else list(enumerate(o)) if isinstance(o, (list, tuple)) else None
        if items is None:
            out.append(('leaf', repr(o)))
            continue
        row = [type(o).__name__]
        for k, v in items:
            if isinstance(v, (list, dict)):
                if id(v) not in num:
                    num[id(v)] = len(num)
                    todo.append(v)
                row.append((repr(k), 'ref', num[id(v)]))
            else:
                row.append((repr(k), 'leaf', repr(v)))
        out.append(tuple(row))
    return out


def check_graph(ctx, case):
    value = build_graph(case['graph'])
    want = fingerprint(value)
    import ombott
    app = ombott.Ombott()
    box = {}

    def h():
        try:
            app.response.set_cookie('g', value, secret=case['secret'])
        except Exception as e:
            box['refused'] = e
        return 'ok'
    app.route('/set', callback=h)
    r = call_app(app, make_environ('GET', '/set'))
    if r.escaped is not None or r.code != 200:
        raise CheckFailure(f'setting a signed cookie failed: {r.status!r} {r.errors[-400:]}')
    if 'refused' in box:
        raise CheckFailure(f'set_cookie refused a picklable value ({len(case["graph"])} containers, {case["graph"]!r}): {fmt_exc(box["refused"])[-300:]}')
    emitted = r.header_all('Set-Cookie')[0]
    (jar, val), = read_back(emitted, [('g', case['secret'])])
    if val == SENTINEL:
        raise CheckFailure(f'signed cookie holding the object graph {case["graph"]!r} reads as absent')
    got = fingerprint(val)
    if got != want:
        raise CheckFailure(f'signed cookie value is not read back unchanged: object graph {case["graph"]!r} has the shape {want!r}, read back {got!r} '
                           f'(shared or cyclic references were not preserved)')
    ctx.evals += 1
    shared = len(want) < sum(1 for n in case['graph'] for e in n['edges'] if e[0] == 'ref') + 1
    ctx.count('graph_with_shared_or_cyclic_reference' if shared else 'graph_tree_shaped')
    if shared:
        ctx.nontrivial('graph:' + repr(case['graph']))


# ----------------------------------------------------------------- picklable values that are (or refer to) importable objects
def _glob_table():
    import collections, datetime, decimal, fractions, os, socket, uuid, pathlib, enum, re as _re
    return {
        'os.stat_result': lambda: os.stat_result(tuple(range(10))), 'os.terminal_size': lambda: os.terminal_size((80, 24)), 'socket.AF_INET': lambda: socket.AF_INET,
        'socket.SOCK_STREAM': lambda: socket.SOCK_STREAM, 'os.getcwd': lambda: os.getcwd, 'os.path.join': lambda: os.path.join, 'dict.fromkeys': lambda: dict.fromkeys,
        'getattr': lambda: getattr, 'len': lambda: len, 'sorted': lambda: sorted, 'open': lambda: open, 'int': lambda: int, 'ValueError': lambda: ValueError,
        'ValueError()': lambda: ('exc', ValueError('x').args), 'datetime': lambda: datetime.datetime(2001, 9, 9, 1, 46, 40), 'timedelta': lambda: datetime.timedelta(3, 7),
        'Decimal': lambda: decimal.Decimal('1.50'), 'Fraction': lambda: fractions.Fraction(3, 7), 'OrderedDict': lambda: collections.OrderedDict([('b', 1), ('a', 2)]),
        'deque': lambda: collections.deque([1, 2], maxlen=5), 'Counter': lambda: collections.Counter('aab'), 'UUID': lambda: uuid.UUID(int=5), 'PurePosixPath': lambda: pathlib.PurePosixPath('a/b'),
        'complex': lambda: complex(1, -2), 'range': lambda: range(1, 9, 2), 'frozenset': lambda: frozenset({1, 'a'}), 'bytearray': lambda: bytearray(b'ab'), 'slice': lambda: slice(1, 5, 2),
        're.I': lambda: _re.I, 'nested': lambda: {'k': [socket.AF_INET, os.terminal_size((1, 2)), {'f': dict.fromkeys}]}, 'sys.maxsize': lambda: __import__('sys').maxsize,
        'subprocess.CompletedProcess': lambda: __import__('subprocess').CompletedProcess(['a'], 0), 'shutil-usage': lambda: __import__('shutil').disk_usage.__class__.__name__,
    }


def check_global(ctx, case):
    value = _glob_table()[case['global']]()
    try:
        pickle.loads(pickle.dumps(value, -1))
    except Exception:
        ctx.exclude('value_not_picklable_on_this_interpreter')
        return
    import ombott
    app = ombott.Ombott()
    app.route('/set', callback=lambda: (app.response.set_cookie('g', value, secret=case['secret']), 'ok')[1])
    r = call_app(app, make_environ('GET', '/set'))
    if r.escaped is not None or r.code != 200:
        raise CheckFailure(f'setting a signed cookie holding {case["global"]} failed: {r.status!r} {r.errors[-400:]}')
    (jar, val), = read_back(r.header_all('Set-Cookie')[0], [('g', case['secret'])])
    if val == SENTINEL:
        raise CheckFailure(f'signed cookie holding the picklable value {case["global"]} ({value!r}) reads as absent with the right secret')
    if type(val) is not type(value) or not (val == value or repr(val) == repr(value)):
        raise CheckFailure(f'signed cookie holding {case["global"]}: read back {val!r}, set {value!r}')
    ctx.evals += 1
    ctx.nontrivial('global:' + case['global'])


# ----------------------------------------------------------------- cookie attributes (expiry, scope) have no say in what reads back
def check_options(ctx, case):
    import datetime, os, time
    import ombott
    old_tz = os.environ.get('TZ')
    os.environ['TZ'] = case['tz']
    time.tzset()
    try:
        now = time.time()
        opts = {'expires_naive_utc': {'expires': datetime.datetime.utcfromtimestamp(now + 3600)}, 'expires_ts': {'expires': now + 3600}, 'expires_date': {'expires': datetime.date.fromtimestamp(now + 3 * 86400)},
                'max_age': {'max_age': 3600}, 'max_age_td': {'max_age': datetime.timedelta(hours=1)}, 'both': {'max_age': 60, 'expires': now + 60},
                'scope': {'path': '/app', 'domain': 'example.org', 'secure': True, 'httponly': True}, 'far': {'expires': datetime.datetime(2037, 1, 1)}}[case['opts']]
        app = ombott.Ombott()

        def h():
            app.response.set_cookie('s', ['user', 7], secret='k', **opts)
            app.response.set_cookie('p', 'plain value', **opts)
            return 'ok'
        app.route('/set', callback=h)
        r = call_app(app, make_environ('GET', '/set'))
        if r.escaped is not None or r.code != 200:
            raise CheckFailure(f'set_cookie(..., **{opts!r}) under TZ={case["tz"]} failed: {r.status!r} {r.errors[-400:]}')
        pairs = [v.split(';', 1)[0] for v in r.header_all('Set-Cookie')]          # the browser returns name=value only
        got = read_back('; '.join(pairs), [('s', 'k'), ('p', None)])
        if got[0][1] != ['user', 7] or got[1][1] != 'plain value':
            raise CheckFailure(f'cookies set with {case["opts"]} ({opts!r}) under TZ={case["tz"]} (not yet expired) read back as {got[0][1]!r} / {got[1][1]!r}; emitted {r.header_all("Set-Cookie")!r}')
        ctx.evals += 1
        ctx.nontrivial('opts:' + case['tz'] + ':' + case['opts'])
    finally:
        if old_tz is None:
            os.environ.pop('TZ', None)
        else:
            os.environ['TZ'] = old_tz
        time.tzset()


def witness_k15(ctx):
    """Pinned witness of open finding K15 (plain cookie above U+00FF)."""
    c = [{'name': 'w', 'secret': None, 'value': 'Ω'}]
    emitted = set_and_collect(c)
    (jar, val), = read_back(emitted['w'], [('w', None)])
    if val == 'Ω':
        ctx.note('K15 witness passes on this tree (finding no longer reproduces)')
        return
    if val == 'Ω'.encode('utf8').decode('latin1') and ctx.known('K15-plain-cookie-above-latin1'):
        return
    raise CheckFailure(f'plain cookie U+03A9 reads back as {val!r} (not the known K15 shape or K15 not listed)')


def run(ctx):
    for name, case in load_corpus(ID):
        ctx.guarded(check_sequence if 'sequence' in case else check_graph if 'graph' in case else check_global if 'global' in case else check_options if 'options' in case else check_threaded if 'threaded' in case else (check_tamper if 'other_secret' in case else check_roundtrip), case)
        ctx.count('corpus')
    if ctx.shard == 0:
        ctx.guarded(lambda c, _: witness_k15(c), {'witness': 'K15'})
        # a plain and a signed cookie under every status / way of answering, and on a request object that was asked before its Cookie header was replaced
        for status in (None, 200, 201, 204, 206, 301, 304, 400, 404, 500):
            for via in ('response', 'returned', 'raised', 'copied', 'copy_returned', 'both_returned', 'both_raised'):
                for prime in (None, 'p=old; s="!bm9wZQ==?bm9wZQ=="'):
                    ctx.guarded(check_roundtrip, {'cookies': [{'name': 'p', 'secret': None, 'value': 'plain v'}, {'name': 's', 'secret': 'k', 'data': ['u', 1]}],
                                                  'status': status, 'via': via, 'prime': prime})
        ctx.count('status_grid')
        # a failing set_cookie call (caught by the handler) before / after the successful ones leaves those as they were
        for kind in FAIL_KINDS:
            for when in ('before', 'after'):
                for i in (0, 1):
                    for via in ('response', 'returned', 'raised'):
                        ctx.guarded(check_roundtrip, {'cookies': [{'name': 'p', 'secret': None, 'value': 'plain v'}, {'name': 's', 'secret': 'k', 'data': ['u', 1]}],
                                                      'status': None, 'via': via, 'prime': None, 'failed': [[when, i, kind]]})
        ctx.count('failed_set_grid')
        # exhaustive: every 1- and (sampled) 2-character Latin-1 plain value
        for a in range(256):
            ctx.guarded(check_roundtrip, {'cookies': [{'name': 'p', 'secret': None, 'value': chr(a)}]})
        step = 1 if ctx.tier == 'thorough' else 5
        for a in range(0x20, 256, step):
            for b in (0x22, 0x3b, 0x5c, 0x80, 0xa9, 0xbf, 0xc3, 0xe9):
                ctx.guarded(check_roundtrip, {'cookies': [{'name': 'p', 'secret': None, 'value': chr(a) + chr(b)}]})
                ctx.guarded(check_roundtrip, {'cookies': [{'name': 'p', 'secret': None, 'value': chr(b) + chr(a)}]})
        ctx.count('latin1_plain_grid')
    n = 2500 if ctx.tier == 'quick' else 25000
    ctx.hyp(rt_case(), check_roundtrip, n, label='roundtrip')
    m = 25 if ctx.tier == 'quick' else 150
    if ctx.shard == 0:
        for nm, other in (('username', 'user'), ('user', 'username'), ('sid', 'sidAAAA'), ('a', 'b')):
            ctx.guarded(check_tamper, {'name': nm, 'other_name': other, 'secret': 's3cret', 'other_secret': 'other', 'data': ['u', 7], 'other_data': {'$dict': [['k', 1]]}})
    ctx.hyp(tamper_case(), check_tamper, m, label='tamper', shrink=False)
    if ctx.shard == 0:
        import itertools
        groups = [[1, True, {'$float': '1.0'}], [0, False, {'$float': '0.0'}, {'$float': '-0.0'}], [{'$tuple': [1, 'x']}, {'$tuple': [True, 'x']}], ['1', 1], [None, 0, ''],
                  [{'$bytes': '61'}, 'a'], [{'$tuple': []}, []], [{'$float': '2.0'}, 2]]
        for g in groups:
            for perm in itertools.permutations(g):
                ctx.guarded(check_sequence, {'sequence': True, 'name': 'seq', 'secret': 's3cret', 'values': list(perm)})
        ctx.count('equal_but_distinct_value_sequences')
    if ctx.shard == 0:
        for gname, g in FIXED_GRAPHS.items():
            ctx.guarded(check_graph, {'graph': g, 'secret': 's3cret'})
        ctx.count('fixed_object_graphs', len(FIXED_GRAPHS))
        for gname in sorted(_glob_table()):
            ctx.guarded(check_global, {'global': gname, 'secret': 's3cret'})
        ctx.count('importable_object_values', len(_glob_table()))
        for tz in ('UTC', 'XXX-5', 'YYY5', 'ZZZ-13', 'AAA9:30'):
            for o in ('expires_naive_utc', 'expires_ts', 'expires_date', 'max_age', 'max_age_td', 'both', 'scope', 'far'):
                ctx.guarded(check_options, {'options': True, 'tz': tz, 'opts': o})
        ctx.count('cookie_attribute_grid')
    ctx.hyp(st.fixed_dictionaries({'graph': GRAPH, 'secret': SECRET}), check_graph, 150 if ctx.tier == 'quick' else 3000, label='graph')
    if ctx.shard == 0:
        for old, new in (('old-secret', 'new-secret'), ('k', 'K'), ('é', 'e')):
            ctx.guarded(check_threaded, {'threaded': True, 'old': old, 'new': new, 'name': 'sid', 'data': ['user', 7]})


def replay(ctx, case):
    if 'witness' in case:
        return witness_k15(ctx)
    if 'threaded' in case:
        return check_threaded(ctx, case)
    if 'sequence' in case:
        return check_sequence(ctx, case)
    if 'graph' in case:
        return check_graph(ctx, case)
    if 'global' in case:
        return check_global(ctx, case)
    if 'options' in case:
        return check_options(ctx, case)
    (check_tamper if 'other_secret' in case else check_roundtrip)(ctx, case)
