"""C10  Application objects in one process are independent of each other."""
import threading

from hypothesis import strategies as st

from vlib import shim
from vlib import site as S
from vlib.core import CheckFailure, load_corpus, fmt_exc
from vlib.sched import Scheduler
from vlib.wsgi import call_app
from checks.c08_threads import relevant

ID = 'C10'
LEVEL = 'exploration'
RULE = ('case = arrangement program over 2-3 applications (optionally one of them the module-level default app; each with the stock configuration - whose error '
        'objects are process-wide - or with its own errors_map): a sequence of steps served in one thread, each a plain request of any kind of vlib/site.py or an outer request to a handler '
        'that performs foreign operations in its middle: serve a request on another application (nested call, any kind), nest a further outer request (depth 2), '
        'Request.copy() followed by writes to the copy, construct a new application (and serve on it) while serving, construct one from the configuration object of a live application and then set one of its configuration attributes; optionally followed by two requests on two '
        'different applications interleaved on two threads under the deterministic scheduler. Oracle: probes inside the handlers before and after every foreign '
        'operation show the own request of that application (environ identity, path, query string, cookie; response headers / cookies written before are still '
        'there); every response (outer, inner, plain, threaded) == the response of the same request on a fresh stand-alone application. The known defect K10 '
        '(ts_props store shared per class) is excluded by construction: the whole search runs with a harness-side shim that gives the generated properties '
        'per-instance stores (vlib/shim.py); three pinned witnesses (nested call, copy(), construction while serving) run WITHOUT the shim. Additionally every single-preemption schedule of two same-kind requests on two applications on two threads (12 kinds), and EVERY ordered pair of request kinds is served first on application A (stock, own errors_map, or virtual-host configuration with domain_map / app_name_header), then on B, then on A, with different and with identical request data. Additionally ONE environ dict served twice: a dispatcher asks application A, gets a 404, optionally strips a prefix from PATH_INFO (moving it to SCRIPT_NAME) and hands the same environ to application B, where a hook of A may have looked at the request before (forms / json / POST / files / params / body read fully, partly or not at all / query / cookies / headers / url ...) and A and B may differ in one configuration key (either side); the response of B == the response of a stand-alone application to a fresh environ with the same request data (every kind shifted; every body kind x look x configuration difference). Non-trivial = at '
        'least one foreign operation or a threaded part, or a kind pair across two applications; distinct by case hash.')
ASSUMPTIONS = ['search runs under the K10 shim (stated exclusion); witnesses run on the unmodified classes', 'nested calls on the SAME application (re-entrancy) are not part of the property',
               'reference responses come from stand-alone applications with their own error objects',
               'forwarded environ: A has returned before B is called (nested forwarding would sit behind K10); judged only when A answered 404 (a failed body read leaves the stream half consumed); '
               'not judged, because the unchanged tree breaks the oracle there (reported, not allow-listed): (1) the path is shifted after A has computed request.url / script_name (its stock HTML 404 page does) - '
               'B then shows the script_name / url cached in the environ by A; (2) A is MORE permissive than B (max_body_size / max_memfile_size) and has read the body / forms - B then serves the body A cached although it exceeds its own limits']

_SOLO = {}


_custom_errors = S.custom_errors


def solo(kind, n, cfg='default'):
    key = (kind, n, cfg)
    if key not in _SOLO:
        if cfg == 'default':
            app = S.make_app(private_errors=True)
        elif cfg == 'debug':
            app = S.make_app(config={'debug': True}, private_errors=True)
        elif cfg == 'domain':
            app = S.make_app(config=S.domain_config(), private_errors=True)
        else:
            app = S.make_app(config={'errors_map': _custom_errors()})
        r = call_app(app, S.make_env(kind, n))
        if r.escaped is not None:
            raise CheckFailure(f'solo request {key} raised {fmt_exc(r.escaped)}')
        _SOLO[key] = (r.status, sorted(r.headers or []), r.body)
    return _SOLO[key]


RECONF = {'max_body_size': 4, 'allow_x_script_name': True, 'debug': True, 'catchall': False, 'app_name_header': 'X-App', 'max_memfile_size': 1}

DEBUG_KINDS = ['notfound', 'crash', 'wrongverb', 'badjson', 'oversized', 'ok', 'cookie_then_abort']       # kinds whose page depends on the debug flag (and one that does not)

KIND = st.sampled_from([k for k in S.KINDS] + ['foreign'])


def act_st(napps, busy, depth):
    """busy = applications already serving in the current call chain (re-entering one of them is not part of the property)."""
    others = [j for j in range(napps) if j not in busy]
    base = [
        st.fixed_dictionaries({'do': st.just('listen'), 'on_copy': st.booleans()}),
        st.fixed_dictionaries({'do': st.just('setitem'), 'key': st.sampled_from(['verif.key', 'QUERY_STRING', 'HTTP_X_VERIF'])}),
        st.fixed_dictionaries({'do': st.just('copy'), 'w': st.integers(0, 3)}),
        st.fixed_dictionaries({'do': st.just('construct'), 'serve': st.booleans(), 'kind': KIND, 'n': st.integers(0, 30)}),
        # a further application constructed from the configuration OBJECT of a live one, then configured differently
        st.fixed_dictionaries({'do': st.just('construct'), 'serve': st.just(False), 'kind': st.just('ok'), 'n': st.just(0),
                               'from': st.integers(0, napps - 1), 'set': st.sampled_from(sorted(RECONF))}),
    ]
    if others:
        base.append(st.fixed_dictionaries({'do': st.just('serve'), 'app': st.sampled_from(others), 'kind': KIND.filter(lambda k: k != 'foreign'), 'n': st.integers(0, 30)}))
        base.append(st.fixed_dictionaries({'do': st.just('serve'), 'app': st.sampled_from(others), 'kind': KIND.filter(lambda k: k != 'foreign'), 'n': st.integers(0, 30)}))
        if depth < 2:
            base.append(st.sampled_from(others).flatmap(lambda j: st.fixed_dictionaries(
                {'do': st.just('nest'), 'app': st.just(j), 'n': st.integers(0, 30), 'acts': st.lists(act_st(napps, busy | {j}, depth + 1), max_size=2)})))
    return st.one_of(base)


@st.composite
def case_st(draw):
    napps = draw(st.integers(2, 3))
    steps = []
    for _ in range(draw(st.integers(1, 5))):
        i = draw(st.integers(0, napps - 1))
        if draw(st.integers(0, 2)):
            steps.append({'app': i, 'kind': 'foreign', 'n': draw(st.integers(0, 30)), 'acts': draw(st.lists(act_st(napps, frozenset([i]), 0), min_size=1, max_size=3))})
        else:
            steps.append({'app': i, 'kind': draw(KIND), 'n': draw(st.integers(0, 30)), 'acts': []})
    threads = None
    if draw(st.integers(0, 2)) == 0:
        i, j = draw(st.permutations(range(napps)))[:2]
        threads = {'reqs': [[i, draw(KIND), draw(st.integers(0, 30))], [j, draw(KIND), draw(st.integers(0, 30))]],
                   'schedule': draw(st.lists(st.tuples(st.integers(0, 1), st.integers(1, 200)).map(list), min_size=1, max_size=12))}
    return {'napps': napps, 'default': draw(st.sampled_from([-1, -1, 0, 1])), 'steps': steps, 'threads': threads,
            'cfg': draw(st.lists(st.sampled_from(['default', 'default', 'custom', 'domain', 'debug']), min_size=napps, max_size=napps))}


class World:
    def __init__(self, case):
        import ombott
        self.problems = []
        self.served = []           # (description, kind, n, triple)
        self.stack = {}            # (thread ident, app index) -> [environ, ...]
        self.apps = []
        self.foreign = [dict() for _ in range(case['napps'])]
        self.cfg = list(case.get('cfg') or ['default'] * case['napps'])
        if case['default'] >= 0 and self.cfg[case['default']] in ('domain', 'debug'):
            self.cfg[case['default']] = 'default'       # the module-level default app outlives the case: it never gets the mirrored /blog routes
        for i in range(case['napps']):
            existing = ombott.app if case['default'] == i else None
            # 'default': the stock configuration (its error objects are the process-wide ones every default-config application shares);
            # 'custom': an application configured with its own errors_map
            config = {'errors_map': _custom_errors()} if self.cfg[i] == 'custom' else (S.domain_config() if self.cfg[i] == 'domain' else ({'debug': True} if self.cfg[i] == 'debug' else None))
            self.apps.append(S.make_app(probe=self._probe_for(i), config=config, app=existing, foreign=self.foreign[i], private_errors=(self.cfg[i] == 'debug')))
        self.nforeign = 0
        self.keep = []
        self.undo = []          # listeners are removed at the end of the case (the default app outlives it)

    def _probe_for(self, i):
        def probe(app, where):
            st_ = self.stack.get((threading.get_ident(), i))
            if not st_:
                return
            env = st_[-1]
            rq, rs = app.request, app.response
            try:
                seen_env = rq.environ
            except Exception as e:
                self.problems.append(f'app {i} {where}: request.environ raised {type(e).__name__}: {e}')
                return
            if seen_env is not env:
                self.problems.append(f'app {i} {where}: request shows {seen_env.get("PATH_INFO")!r}?{seen_env.get("QUERY_STRING")!r}, the request being served by '
                                     f'this application is {env["PATH_INFO"]!r}?{env["QUERY_STRING"]!r}')
                return
            if rq.query_string != env['QUERY_STRING'] or rq.path != '/' + env['PATH_INFO'].lstrip('/'):
                self.problems.append(f'app {i} {where}: request.path / query_string differ from the own environ')
            if where == 'foreign:after':
                q = rq.query.get('q', '')
                try:
                    hb = rs.headers.get('X-Before')
                    ck = rs._cookies
                except Exception as e:
                    self.problems.append(f'app {i} {where}: response access raised {type(e).__name__}: {e}')
                    return
                if hb != 'b' + q:
                    self.problems.append(f'app {i} foreign:after: response header X-Before reads {hb!r}, this handler wrote {"b" + q!r} before the foreign operation')
                if ck is None or 'fc' not in ck or ck['fc'].value != 'f' + q:
                    self.problems.append(f'app {i} foreign:after: response cookie fc reads {ck and ck.output()!r}, this handler wrote {"f" + q!r}')
        return probe

    def serve(self, i, kind, n, acts, desc):
        env = S.make_env(kind, n)
        key = (threading.get_ident(), i)
        self.stack.setdefault(key, []).append(env)
        self.foreign[i]['act'] = (lambda app: self.run_acts(i, acts, desc)) if acts else None
        try:
            r = call_app(self.apps[i], env)
        finally:
            self.stack[key].pop()
        if r.escaped is not None:
            self.problems.append(f'{desc}: exception escaped {fmt_exc(r.escaped)[-600:]}')
            return
        self.served.append((desc, kind, n, (r.status, sorted(r.headers or []), r.body), self.cfg[i]))

    def run_acts(self, i, acts, desc):
        import ombott
        # the slot is per application: restore it after nested use
        for a in acts:
            self.nforeign += 1
            if a['do'] == 'serve':
                self.serve(a['app'], a['kind'], a['n'], [], f'{desc} > nested serve on app {a["app"]} {a["kind"], a["n"]}')
            elif a['do'] == 'nest':
                self.serve(a['app'], 'foreign', a['n'], a['acts'], f'{desc} > nested outer on app {a["app"]} n={a["n"]}')
            elif a['do'] == 'copy':
                rq = self.apps[i].request
                c = rq.copy()
                if a['w'] >= 1:
                    c['QUERY_STRING'] = 'q=written-to-copy'
                if a['w'] >= 2:
                    c['PATH_INFO'] = '/copy/path'
                    c.environ['HTTP_COOKIE'] = 'seen=copy'
                if a['w'] >= 3:
                    _ = (c.query, c.path, c.cookies, c.headers.get('Cookie'))
            elif a['do'] == 'listen':
                # a listener on THIS application's request object (or on a copy of it): marks every request it is called for
                rq = self.apps[i].request
                target = rq.copy() if a['on_copy'] else rq

                def cb(request, key, value, i=i):
                    request.environ['verif.listener.%d' % i] = key
                self.undo.append(target.on('env_changed', cb))
            elif a['do'] == 'setitem':
                rq = self.apps[i].request
                old = rq.environ.get(a['key'])
                rq[a['key']] = (old or '') + ('&z=1' if a['key'] == 'QUERY_STRING' else 'v')
                if a['key'] == 'QUERY_STRING':
                    rq.environ['QUERY_STRING'] = old           # the response must stay comparable with the solo reference
                    rq.environ.pop('ombott.request.query', None)
                    rq.environ.pop('ombott.request.params', None)
                marks = [k for k in rq.environ if str(k).startswith('verif.listener.') and k != 'verif.listener.%d' % i]
                if marks:
                    self.problems.append(f'{desc}: item assignment on the request of application {i} fired a listener registered on another application\'s request '
                                         f'(or on a copy): environ now holds {marks}')
            elif a['do'] == 'construct' and a.get('set'):
                new = ombott.Ombott(self.apps[a['from']].config)
                setattr(new.config, a['set'], RECONF[a['set']])
                self.keep.append(new)
            elif a['do'] == 'construct':
                new = S.make_app(private_errors=True)
                if a['serve']:
                    r = call_app(new, S.make_env(a['kind'], a['n']))
                    if r.escaped is None:
                        self.served.append((f'{desc} > request on an application constructed while serving', a['kind'], a['n'], (r.status, sorted(r.headers or []), r.body), 'default'))
        self.foreign[i]['act'] = None


def run_case(ctx, case, shimmed=True):
    # phase 1: references
    wanted = set()

    def collect(acts):
        for a in acts:
            if a['do'] == 'serve' or (a['do'] == 'construct' and a['serve']):
                wanted.add((a['kind'], a['n']))
            if a['do'] == 'nest':
                wanted.add(('foreign', a['n']))
                collect(a['acts'])
    for s in case['steps']:
        wanted.add((s['kind'], s['n']))
        collect(s['acts'])
    if case.get('threads'):
        for i, k, n in case['threads']['reqs']:
            wanted.add((k, n))
    if shimmed:
        shim.install()
    try:
        w = None
        for k, n in sorted(wanted):
            for cfg in set(case.get('cfg') or ['default']) | {'default'}:
                solo(k, n, cfg)
        w = World(case)
        for si, s in enumerate(case['steps']):
            w.serve(s['app'], s['kind'], s['n'], s['acts'], f'step {si} on app {s["app"]} {s["kind"], s["n"]}')
        th = case.get('threads')
        if th:
            fns = []
            for ti, (i, k, n) in enumerate(th['reqs']):
                fns.append(lambda i=i, k=k, n=n, ti=ti: w.serve(i, k, n, [], f'thread {ti} on app {i} {k, n}'))
            sched = Scheduler(fns, th['schedule'], relevant)
            sched.run()
            w.yields = sched.yields
            for ti, e in enumerate(sched.errors):
                if e is not None:
                    w.problems.append(f'thread {ti} raised {fmt_exc(e)[-500:]}')
    finally:
        try:
            for u in (w.undo if w else []):
                u()
        except Exception:
            pass
        if shimmed:
            shim.uninstall()
    if w.problems:
        raise CheckFailure('; '.join(w.problems[:3]) + f'\n arrangement: {case}')
    for desc, kind, n, got, cfg in w.served:
        ref = solo(kind, n, cfg)
        if got != ref:
            raise CheckFailure(f'{desc}: response differs from the one the same request produces on a stand-alone application:\n  got  {got[0]!r} {got[1]!r} {got[2][:200]!r}\n'
                               f'  solo {ref[0]!r} {ref[1]!r} {ref[2][:200]!r}\n arrangement: {case}')
    return w


# ---------------------------------------------------------------------------------------------------------------------------------
# one environ, two applications: a dispatcher asks application A first; A answers 404 (it does not own the path); the dispatcher
# strips a prefix from PATH_INFO (moving it to SCRIPT_NAME) or leaves the path alone, and hands THE SAME environ dict to application B.
# A has returned before B is called (no nesting). A may have looked at the request (a before_request hook reading forms / json / body ...),
# and A and B may be configured differently in one key.

LOOKS = {
    'forms': lambda rq: rq.forms, 'json': lambda rq: rq.json, 'post': lambda rq: rq.POST, 'files': lambda rq: rq.files, 'params': lambda rq: rq.params,
    'body_read': lambda rq: rq.body.read(), 'body_part': lambda rq: rq.body.read(7), 'body_peek': lambda rq: rq.body,
    'query': lambda rq: rq.query, 'cookies': lambda rq: rq.cookies, 'headers': lambda rq: rq.headers.get('X-In'), 'url': lambda rq: rq.url,
    'script_name': lambda rq: rq.script_name, 'content_length': lambda rq: rq.content_length, 'auth': lambda rq: (rq.auth, rq.remote_route),
}
FWD_DELTA = {'same': {}, 'memfile': {'max_memfile_size': 16 * 1024}, 'bodysize': {'max_body_size': 1024 * 1024}, 'xscript': {'allow_x_script_name': True},
             'appname': {'app_name_header': 'HTTP_X_VERIF_APP'}}
FWD_LAX = ('memfile', 'bodysize')          # deltas that make the application that has them MORE permissive than the site's 600 / 160 bytes
FWD_PREFIX = ['', '/api']            # '': A is a front application owning other paths, the path is forwarded as it is;
#                                      '/api': A is the site, which answers 404 there through its own per-prefix handler, the dispatcher strips the prefix
BODY_KINDS = ['badchunk', 'oversized', 'badmultipart', 'form', 'bigform', 'badjson', 'chunked_ok', 'emptyform', 'emptybody', 'upload_headers', 'badstart', 'neg_cl', 'form_fixed']


def fwd_scope(case):
    """The part of the arrangement space that is judged (see ASSUMPTIONS: the two excluded parts break the oracle on the unchanged tree and are reported, not allow-listed)."""
    case = dict(case)
    if case['prefix']:
        case['look'] = [x for x in case['look'] if x not in ('url', 'script_name')]
        case['cfg'] = ['default' if case['cfg'][0] == 'domain' else case['cfg'][0], case['cfg'][1]]
    if case['delta'] in FWD_LAX:
        case['side'] = 1
    return case


def _fwd_app(cfg, delta):
    config = dict({'errors_map': _custom_errors()} if cfg == 'custom' else (S.domain_config() if cfg == 'domain' else {}), **delta)
    return S.make_app(config=config, private_errors=(cfg != 'custom'))


def check_forward(ctx, case):
    case = fwd_scope(case)
    kind, n, prefix = case['kind'], case['n'], case['prefix']
    da = FWD_DELTA[case['delta']] if case['side'] == 0 else {}
    db = FWD_DELTA[case['delta']] if case['side'] == 1 else {}
    for shimmed in ((True, False) if case.get('both', True) else (True,)):
        if shimmed:
            shim.install()
        try:
            if prefix:
                a = _fwd_app(case['cfg'][0], da)
            else:
                import ombott
                a = ombott.Ombott(dict({'max_body_size': 600, 'max_memfile_size': 160}, **da))         # a front application that owns other paths only

                @a.route('/front/status')
                def front_status():
                    return 'front'
            if case['look']:
                def look(a=a):
                    for name in case['look']:
                        LOOKS[name](a.request)
                a.add_hook('before_request', look)
            b = _fwd_app(case['cfg'][1], db)
            alone = _fwd_app(case['cfg'][1], db)
            env = S.make_env(kind, n)
            raw = env['PATH_INFO']
            env['PATH_INFO'] = prefix + raw
            ra = call_app(a, env)
            if ra.escaped is not None:
                raise CheckFailure(f'forwarding: the first application raised {fmt_exc(ra.escaped)[-400:]}\n arrangement: {case}')
            if ra.code != 404:
                ctx.count('forward_not_taken_first_application_answered')
                continue
            if prefix:
                env['SCRIPT_NAME'] = prefix
                env['PATH_INFO'] = raw
            rb = call_app(b, env)
            fresh_env = S.make_env(kind, n)
            if prefix:
                fresh_env['SCRIPT_NAME'] = prefix
            rf = call_app(alone, fresh_env)
        finally:
            if shimmed:
                shim.uninstall()
        if rb.escaped is not None or rf.escaped is not None:
            if type(rb.escaped) is not type(rf.escaped):
                raise CheckFailure(f'forwarded environ: the second application raised {fmt_exc(rb.escaped) if rb.escaped else None}, with a fresh environ {fmt_exc(rf.escaped) if rf.escaped else None}\n arrangement: {case}')
            continue
        got, ref = (rb.status, sorted(rb.headers or []), rb.body), (rf.status, sorted(rf.headers or []), rf.body)
        if got != ref:
            raise CheckFailure(f'one environ served by application A (answer {ra.status!r}) and then handed on to application B ({"with" if shimmed else "without"} the shim): B answers differently '
                               f'than for a fresh environ with the same request data (SCRIPT_NAME {prefix!r}, PATH_INFO {raw!r}):\n  got   {got[0]!r} {got[1]!r} {got[2][:200]!r}\n'
                               f'  fresh {ref[0]!r} {ref[1]!r} {ref[2][:200]!r}\n arrangement: {case}')
        ctx.count('forwarded_environ_responses_compared')
        if prefix:
            ctx.count('forwarded_environ_path_shifted')
        if case['look'] and case['delta'] != 'same':
            ctx.count('forwarded_environ_looked_at_by_differently_configured_application')
        ctx.nontrivial('forward:' + repr(sorted(case.items())))


def forward_grid():
    out = []
    kinds = list(S.KINDS)
    # every kind: path shifted between the two applications (with and without the shim), and forwarded as it is after a look at the plain attributes
    for i, k in enumerate(kinds):
        out.append({'forward': True, 'kind': k, 'n': 5 + i % 3, 'prefix': '/api', 'look': [], 'delta': 'same', 'side': 0, 'cfg': ['default', 'default'], 'both': True})
        plain = ['query', 'cookies', 'headers', 'content_length', 'auth', 'url', 'script_name']
        out.append({'forward': True, 'kind': k, 'n': 5 + i % 3, 'prefix': FWD_PREFIX[i % 2], 'look': [plain[i % len(plain)], plain[(i + 3) % len(plain)]], 'delta': ['same', 'xscript', 'appname'][i % 3],
                    'side': i % 2, 'cfg': ['default', 'default'], 'both': False})
    # every kind with a body x every way A can have looked at the body x every configuration difference (either side)
    i = 0
    for k in BODY_KINDS:
        for look in ('forms', 'json', 'post', 'files', 'params', 'body_read', 'body_part', 'body_peek'):
            for delta, side in (('same', 0), ('xscript', 0), ('xscript', 1), ('appname', 0), ('appname', 1), ('memfile', 1), ('bodysize', 1)):
                i += 1
                out.append({'forward': True, 'kind': k, 'n': 5 + i % 3, 'prefix': FWD_PREFIX[i % 2], 'look': [look], 'delta': delta, 'side': side, 'cfg': ['default', 'default'], 'both': False})
    return out


def forward_st():
    return st.fixed_dictionaries({'forward': st.just(True), 'kind': KIND.filter(lambda k: k != 'foreign'), 'n': st.integers(0, 30), 'prefix': st.sampled_from(FWD_PREFIX),
                                  'look': st.lists(st.sampled_from(sorted(LOOKS)), max_size=3), 'delta': st.sampled_from(sorted(FWD_DELTA)), 'side': st.integers(0, 1),
                                  'cfg': st.lists(st.sampled_from(['default', 'default', 'custom', 'domain']), min_size=2, max_size=2), 'both': st.just(False)})


THREAD_PAIRS = [('rex', 'rex'), ('expires', 'expires'), ('typed', 'typed'), ('signed', 'signed'), ('form_fixed', 'form_fixed'), ('chunked_ok', 'chunked_ok'),
                ('ok', 'ok'), ('notfound', 'notfound'), ('badjson', 'badjson'), ('crash', 'crash'), ('urlinfo', 'urlinfo'), ('auth', 'auth')]


def yields_of(ctx, case):
    w = run_case(ctx, case, shimmed=True)
    return w.yields


def check_case(ctx, case):
    w = run_case(ctx, case, shimmed=True)
    ctx.count('responses_compared', len(w.served))
    ctx.count('foreign_operations', w.nforeign)
    kinds = []

    def walk(acts):
        for a in acts:
            kinds.append(a['do'])
            if a['do'] == 'nest':
                walk(a['acts'])
    for s in case['steps']:
        walk(s['acts'])
    for k in set(kinds):
        ctx.count('act_' + k, kinds.count(k))
    if case.get('threads'):
        ctx.count('threaded_part')
    if case['default'] >= 0:
        ctx.count('default_app_involved')
    if kinds or case.get('threads'):
        ctx.nontrivial(case, sample=case)


def check_inner_unshimmed(ctx, case):
    """WITHOUT the K10 shim: a handler of application A serves a request on application B. What K10 breaks is A's view afterwards (the witnesses);
    the INNER response - B's own request, served to its end - holds on the unchanged tree and is judged here against the stand-alone reference."""
    w = None
    for s in case['steps']:
        for a in s['acts']:
            solo(a['kind'], a['n'], 'default')
    try:
        w = World(case)
        for si, s in enumerate(case['steps']):
            try:
                w.serve(s['app'], s['kind'], s['n'], s['acts'], f'step {si} on app {s["app"]}')
            except Exception:
                pass            # (the outer request may fail in any way: K10)
    finally:
        for u in (w.undo if w else []):
            try:
                u()
            except Exception:
                pass
    inner = [x for x in w.served if 'nested serve' in x[0]]
    if not inner:
        raise CheckFailure(f'the nested request was not served at all: {case}; problems {w.problems[:2]}')
    for desc, kind, n, got, cfg in inner:
        ref = solo(kind, n, cfg)
        if got != ref:
            raise CheckFailure(f'{desc} (no shim; only the inner response is judged): differs from the stand-alone response:\n  got  {got[0]!r} {got[1]!r} {got[2][:200]!r}\n'
                               f'  solo {ref[0]!r} {ref[1]!r} {ref[2][:200]!r}')
    ctx.nontrivial(case)


def check_deferred_drain(ctx, case):
    """Application A answers with a lazily encoded text stream; the server drains it only after application B has served a request on the same
    thread (what a server that interleaves responses does). A's bytes must be what A alone produces. Run without the shim (the stream of this
    kind does not look at the request any more, so K10 has no say) and with it."""
    (ka, na), (kb, nb) = case['a'], case['b']
    for shimmed in (False, True):
        if shimmed:
            shim.install()
        try:
            ref = solo(ka, na, 'default')
            refb = solo(kb, nb, 'default')
            a = S.make_app(private_errors=True)
            b = S.make_app(private_errors=True)
            calls = []
            it = a(S.make_env(ka, na), lambda status, headers, exc_info=None: calls.append((status, headers)) or (lambda d: None))
            rb = call_app(b, S.make_env(kb, nb))
            body = b''.join(it)
            close = getattr(it, 'close', None)
            if close:
                close()
        finally:
            if shimmed:
                shim.uninstall()
        got = (calls[-1][0], sorted(calls[-1][1]), body)
        if got != ref:
            raise CheckFailure(f'application A {ka, na} drained after application B served {kb, nb} ({"with" if shimmed else "without"} the shim): A answers\n  got  {got[0]!r} {got[2][:120]!r}\n'
                               f'  solo {ref[0]!r} {ref[2][:120]!r}')
        if (rb.status, sorted(rb.headers or []), rb.body) != refb:
            raise CheckFailure(f'application B {kb, nb} served while A\'s stream {ka, na} was pending differs from its stand-alone response')
        ctx.evals += 1
    ctx.nontrivial('drain:' + repr(case))


def check_pair(ctx, case):
    run_case(ctx, case, shimmed=True)
    ctx.nontrivial(case)


WITNESSES = {
    'K10-nested-call': {'napps': 2, 'default': -1, 'threads': None, 'steps': [{'app': 0, 'kind': 'foreign', 'n': 1, 'acts': [{'do': 'serve', 'app': 1, 'kind': 'ok', 'n': 2}]}]},
    'K10-copy': {'napps': 2, 'default': -1, 'threads': None, 'steps': [{'app': 0, 'kind': 'foreign', 'n': 1, 'acts': [{'do': 'copy', 'w': 2}]}]},
    'K10-construct': {'napps': 2, 'default': -1, 'threads': None, 'steps': [{'app': 0, 'kind': 'foreign', 'n': 1, 'acts': [{'do': 'construct', 'serve': False, 'kind': 'ok', 'n': 3}]}]},
}


def witness(ctx, fid):
    try:
        run_case(ctx, WITNESSES[fid], shimmed=False)
    except CheckFailure as f:
        msg = str(f)
        if ('request shows' in msg or 'raised AttributeError' in msg or 'response header X-Before reads' in msg or 'response cookie fc reads' in msg
                or 'response differs' in msg) and ctx.known(fid):
            return
        raise
    ctx.note(f'{fid} witness passes on this tree without the shim (finding no longer reproduces)')


def run(ctx):
    for name, case in load_corpus(ID):
        ctx.guarded(check_case, case)
        ctx.count('corpus')
    if ctx.shard == 0:
        for fid in WITNESSES:
            ctx.guarded(lambda c, _case, fid=fid: witness(c, fid), {'witness': fid})
        # the witness arrangements themselves must hold under the shim, with every pairing of application roles
        for fid, wcase in WITNESSES.items():
            for default in (-1, 0, 1):
                ctx.guarded(check_case, dict(wcase, default=default))
    # exhaustive: every ordered pair of request kinds, first on application A, then on application B (stock and custom configuration)
    if True:
        kinds = list(S.KINDS) + ['foreign']
        pairs = [(a, b) for a in kinds for b in kinds]
        # the references of this grid come from fresh interpreter processes, one request each
        from vlib import fresh
        got = fresh.references([(k, n, cfg, False) for k in kinds for n in (5, 6, 7) for cfg in ('default', 'custom', 'domain')] + [(k, n, 'default', True) for k in DEBUG_KINDS for n in (5, 6, 7)])
        for (k, n, cfg, dbg), v in got.items():
            if v[0] == 'escaped':
                raise CheckFailure(f'reference request {k, n, cfg} raised {v[1]}')
            _SOLO[(k, n, 'debug' if dbg else cfg)] = v
        ctx.count('references_from_fresh_processes', len(got))
        for a, b in pairs[ctx.shard::max(1, ctx.nshards)]:
            for cfg in (['default', 'default'], ['custom', 'default'], ['domain', 'default']):
                ctx.guarded(check_pair, {'napps': 2, 'default': -1, 'threads': None, 'cfg': cfg,
                                         'steps': [{'app': 0, 'kind': a, 'n': 5, 'acts': []}, {'app': 1, 'kind': b, 'n': 6, 'acts': []}, {'app': 0, 'kind': b, 'n': 7, 'acts': []}]})
            # the same request data on differently configured applications (what one computed must not be handed to the other)
            for cfg in (['domain', 'default'], ['default', 'domain']):
                ctx.guarded(check_pair, {'napps': 2, 'default': -1, 'threads': None, 'cfg': cfg,
                                         'steps': [{'app': 0, 'kind': a, 'n': 5, 'acts': []}, {'app': 1, 'kind': b, 'n': 5, 'acts': []}, {'app': 0, 'kind': b, 'n': 5, 'acts': []}]})
        ctx.count('exhaustive_ordered_kind_pairs_across_two_apps', len(pairs))
        # a non-debug application renders error pages first, then an application with debug on (and the reverse): the debug flag is each application's own
        dpairs = [(a, b) for a in DEBUG_KINDS for b in DEBUG_KINDS]
        for a, b in dpairs[ctx.shard::max(1, ctx.nshards)]:
            for cfg in (['default', 'debug'], ['debug', 'default']):
                ctx.guarded(check_pair, {'napps': 2, 'default': -1, 'threads': None, 'cfg': cfg,
                                         'steps': [{'app': 0, 'kind': a, 'n': 5, 'acts': []}, {'app': 1, 'kind': b, 'n': 6, 'acts': []}, {'app': 0, 'kind': b, 'n': 7, 'acts': []}]})
        ctx.count('debug_flag_pairs', len(dpairs))
        # every request kind after a further application was constructed from the configuration object of A (or B) and then configured differently
        grid = [(k, src, attr) for k in kinds for src in (0, 1) for attr in sorted(RECONF)]
        for k, src, attr in grid[ctx.shard::max(1, ctx.nshards)]:
            act = {'do': 'construct', 'serve': False, 'kind': 'ok', 'n': 0, 'from': src, 'set': attr}
            ctx.guarded(check_pair, {'napps': 2, 'default': -1, 'threads': None, 'cfg': ['default', 'default'],
                                     'steps': [{'app': 0, 'kind': 'foreign', 'n': 5, 'acts': [act]}, {'app': 0, 'kind': k, 'n': 6, 'acts': []}, {'app': 1, 'kind': k, 'n': 7, 'acts': []}]})
        ctx.count('reconfigured_derived_application_grid', len(grid))
    if ctx.shard == 0:
        for na in (1, 2, 3, 4):
            for kb, nb in (('latin_gen', 2), ('latin_gen', 1), ('ok', 5), ('notfound', 5), ('crash', 5), ('expires', 5), ('status_str', 5), ('header_case', 5)):
                ctx.guarded(check_deferred_drain, {'drain': True, 'a': ['latin_gen', na], 'b': [kb, nb]})
        ctx.count('deferred_drain_grid')
    # without the shim: the inner response of a nested call, for every kind
    if ctx.shard == 0:
        for k in list(S.KINDS):
            ctx.guarded(check_inner_unshimmed, {'unshimmed_inner': True, 'napps': 2, 'default': -1, 'threads': None, 'cfg': ['default', 'default'],
                                                'steps': [{'app': 0, 'kind': 'foreign', 'n': 8, 'acts': [{'do': 'serve', 'app': 1, 'kind': k, 'n': 9}]}]})
        ctx.count('unshimmed_inner_response_grid', len(S.KINDS))
    # two applications, one request each on two threads: EVERY single-preemption schedule for pairs that meet in process-wide code
    from vlib.sched import BIG
    for pi, (a, b) in enumerate(THREAD_PAIRS):
        if pi % max(1, ctx.nshards) != ctx.shard % max(1, ctx.nshards):
            continue
        base = {'napps': 2, 'default': -1, 'steps': [], 'cfg': ['default', 'default']}
        probe_case = dict(base, threads={'reqs': [[0, a, 11], [1, b, 12]], 'schedule': [[0, BIG]]})
        ya = yields_of(ctx, probe_case)[0]
        for k in range(0, ya + 1):
            ctx.guarded(check_pair, dict(base, threads={'reqs': [[0, a, 11], [1, b, 12]], 'schedule': [[0, k], [1, BIG], [0, BIG]]}))
        ctx.count('threaded_bound1_pairs')
        ctx.count('threaded_bound1_schedules', ya + 1)
    # one environ dict served by application A (404) and then handed on to application B by a dispatcher (sequential, no nesting)
    fgrid = forward_grid()
    for case in fgrid[ctx.shard::max(1, ctx.nshards)]:
        ctx.guarded(check_forward, case)
    ctx.count('forwarded_environ_grid', len(fgrid))
    ctx.hyp(forward_st(), check_forward, 150 if ctx.tier == 'quick' else 3000, label='forward')
    ctx.note('search runs under vlib/shim.py (per-instance ts_props stores): exclusion by construction of open finding K10; witnesses run without it')
    n = 600 if ctx.tier == 'quick' else 8000
    ctx.hyp(case_st(), check_case, n)


def replay(ctx, case):
    if case.get('forward'):
        return check_forward(ctx, case)
    if case.get('unshimmed_inner'):
        return check_inner_unshimmed(ctx, case)
    if case.get('drain'):
        return check_deferred_drain(ctx, case)
    if 'witness' in case:
        return witness(ctx, case['witness'])
    check_case(ctx, case)
