#!/venv/bin/python
"""Run the quick (or thorough) check of the broken property against every confirmed seeded bug.
Each bug is applied to a scratch worktree of /repo HEAD (or, if a later fix commit touched the same lines, of the commit it was written against; outside /repo and /verif), the check runs with
VERIF_REPO=<scratch>, the worktree is removed.  usage: run_seeded.py [--tier quick] [ids...]
Output: one line per seeded bug: CAUGHT (exit 1 + VIOLATION line) / MISSED (exit 0) / ERROR (exit 2)."""
import concurrent.futures as cf
import json, os, shutil, subprocess, sys, tempfile, time

VERIF = os.path.dirname(os.path.dirname(os.path.abspath(__file__)))


def sh(cmd, cwd=None, env=None, timeout=3600):
    p = subprocess.run(cmd, shell=True, cwd=cwd, env=env, stdout=subprocess.PIPE, stderr=subprocess.STDOUT, text=True, timeout=timeout)
    return p.returncode, p.stdout


def one(sid, tier):
    d = f'{VERIF}/seeded/{sid}'
    meta = json.load(open(f'{d}/meta.json'))
    prop = meta['breaks_property']
    if not os.path.exists(os.path.join(VERIF, 'checks')) :
        return sid, 'ERROR', 'no checks'
    old_base = False
    wt = tempfile.mkdtemp(prefix='seedrun-')
    os.rmdir(wt)
    t0 = time.time()
    try:
        sh(f'git -C /repo worktree add --detach {wt} HEAD')
        rc, out = sh(f'git apply {d}/patch.diff', cwd=wt)
        if rc and meta.get('base_commit'):
            # a later fix: commit touched the same lines: fall back to the commit the change was written against
            sh(f'git -C /repo worktree remove --force {wt}')
            sh(f'git -C /repo worktree add --detach {wt} {meta["base_commit"]}')
            rc, out = sh(f'git apply {d}/patch.diff', cwd=wt)
            old_base = True
        if rc:
            return sid, 'ERROR', 'patch does not apply: ' + out[-200:]
        env = dict(os.environ, VERIF_REPO=wt, PYTHONHASHSEED='0', TZ='UTC')
        if old_base:
            env['VERIF_SKIP_CORPUS'] = '1'
        rc, out = sh(f'/venv/bin/python {VERIF}/run_check.py {prop} --tier {tier}', cwd=VERIF, env=env)
        v = [ln for ln in out.splitlines() if ln.startswith('VIOLATION')]
        first = ''
        if v:
            i = out.splitlines().index(v[0])
            first = ' | '.join(out.splitlines()[i:i + 2])[:300]
        st = 'CAUGHT' if rc == 1 and v else ('MISSED' if rc == 0 else 'ERROR')
        return sid, st, f'{time.time() - t0:.0f}s {first if v else out[-300:].strip()}'
    finally:
        sh(f'git -C /repo worktree remove --force {wt}')
        shutil.rmtree(wt, ignore_errors=True)


def main():
    args = sys.argv[1:]
    tier = 'quick'
    if '--tier' in args:
        i = args.index('--tier'); tier = args[i + 1]; del args[i:i + 2]
    ids = args or sorted(os.listdir(f'{VERIF}/seeded'))
    ids = [i for i in ids if os.path.exists(f'{VERIF}/seeded/{i}/meta.json')]
    with cf.ThreadPoolExecutor(8 if tier == 'quick' else 1) as ex:
        for sid, st, info in ex.map(lambda s: one(s, tier), ids):
            print(f'{sid:8s} {st:7s} {info}', flush=True)


if __name__ == '__main__':
    main()
