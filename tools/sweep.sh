#!/bin/sh
# usage: tools/sweep.sh "<seeds>" [tier]   -- runs every check at each seed (4 in parallel), prints one line per run
cd "$(dirname "$0")/.."
TIER=${2:-quick}
for s in $1; do
  for p in C01 C02 C03 C04 C05 C06 C07 C08 C09 C10 C11 C12 C13 C14 C15 C16 C17 C18 C19 C20; do
    echo "$s $p"
  done
done | xargs -P 5 -L 1 sh -c 'out=$(VERIF_SEED=$0 PYTHONHASHSEED=0 TZ=UTC /venv/bin/python run_check.py $1 --tier '"$TIER"' 2>&1 | grep -v "^WARNING\|KNOWN-FINDING" | tail -2 | tr "\n" " "); echo "seed=$0 $1 rc=$? $out" | cut -c1-260'
