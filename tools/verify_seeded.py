#!/venv/bin/python
"""Confirm sub-agent seeded bugs: patch applies on /repo HEAD, suite passes, demo exits 1 patched / 0 clean.
usage: verify_seeded.py <agent out dir>...   -> copies confirmed ones to /verif/seeded/<id>/"""
import json, os, shutil, subprocess, sys, tempfile

VERIF = os.path.dirname(os.path.dirname(os.path.abspath(__file__)))
PY = '/venv/bin/python'


def sh(cmd, cwd=None, timeout=300):
    p = subprocess.run(cmd, shell=True, cwd=cwd, stdout=subprocess.PIPE, stderr=subprocess.STDOUT, text=True, timeout=timeout)
    return p.returncode, p.stdout


def main():
    head = sh('git -C /repo rev-parse --short HEAD')[1].strip()
    for src in sys.argv[1:]:
        src = src.rstrip('/')
        sid = os.path.basename(src)
        if not os.path.exists(f'{src}/patch.diff'):
            print(sid, 'SKIP: no patch.diff'); continue
        wt = tempfile.mkdtemp(prefix='seedv-')
        os.rmdir(wt)
        try:
            sh(f'git -C /repo worktree add --detach {wt} HEAD')
            rc, out = sh(f'git apply {src}/patch.diff', cwd=wt)
            if rc:
                print(sid, 'REJECT: patch does not apply', out[-300:]); continue
            rc_t, out_t = sh(f'{PY} -m pytest -q -p no:cacheprovider -x 2>&1 | tail -3', cwd=wt)
            ok_tests = '82 passed' in out_t
            rc_p, out_p = sh(f'{PY} {src}/demo.py {wt}', timeout=120)
            sh('git checkout -- .', cwd=wt)
            rc_c, out_c = sh(f'{PY} {src}/demo.py {wt}', timeout=120)
            good = ok_tests and rc_p == 1 and rc_c == 0
            print(sid, 'CONFIRMED' if good else 'REJECT', f'tests_ok={ok_tests} demo_patched={rc_p} demo_clean={rc_c}')
            if good:
                dst = f'{VERIF}/seeded/{sid}'
                os.makedirs(dst, exist_ok=True)
                for f in ('patch.diff', 'demo.py'):
                    shutil.copy(f'{src}/{f}', f'{dst}/{f}')
                meta = json.load(open(f'{src}/meta.json'))
                meta['breaks_property'] = meta.get('property', sid.split('_')[0])
                meta['base_commit'] = head
                meta['confirmed'] = {'suite': '82 passed with the patch', 'demo_with_patch_exit': rc_p, 'demo_clean_exit': rc_c,
                                     'how': 'tools/verify_seeded.py: scratch worktree of /repo HEAD, git apply, pytest, demo.py <wt>; git checkout; demo.py <wt>',
                                     'demo_output_with_patch': out_p[-400:]}
                json.dump(meta, open(f'{dst}/meta.json', 'w'), indent=1)
            else:
                print('   tests:', out_t[-200:].strip()); print('   patched demo:', out_p[-300:].strip()); print('   clean demo:', out_c[-300:].strip())
        finally:
            sh(f'git -C /repo worktree remove --force {wt}')
            shutil.rmtree(wt, ignore_errors=True)


if __name__ == '__main__':
    main()
