#!/venv/bin/python
"""Write the prompts for one round of seeded-change sub-agents.
usage: gen_seed_prompts.py <round-theme-file|-> <outdir> [props...]
Each prompt holds only: the property's text, the location of the agent's scratch worktree, one-line summaries of the earlier
changes for that property (so that the new ones differ) and the round's theme.  Nothing about the checks."""
import json, os, sys

VERIF = os.path.dirname(os.path.dirname(os.path.abspath(__file__)))

TEMPLATE = """You are helping to evaluate a verification harness by writing realistic, subtle bugs ("seeded defects") for a Python project. You work ONLY inside the scratch git worktree /tmp/seed/wt_{pid} (a checkout of valq7711/ombott, a bottle.py spin-off WSGI micro framework; package in ombott/, tests in tests/). Do NOT read or touch /repo or /verif or any other directory under /tmp/seed; do not commit anything.

Python to use: /venv/bin/python (the package is importable from a checkout via sys.path.insert(0, <checkout>)). The existing test suite is run with: cd /tmp/seed/wt_{pid} && /venv/bin/python -m pytest -q -p no:cacheprovider   (82 tests, all pass on the unchanged tree).

The semantic property under study:

{pid} — {title}

{statement}

Quantified over: {quant}

Earlier rounds already produced the following changes for this property; yours must be DIFFERENT in mechanism, in the code site, and in what is needed to trigger them (do not re-create or lightly vary these):
{earlier}

{theme}

Your task: produce TWO independent, different source changes to the ombott package (each a separate small patch), each of which
  1. BREAKS the property above (some input / sequence / schedule / configuration inside the quantified domain now violates it),
  2. still lets the whole existing test suite pass (82 passed) and the package import fine,
  3. looks like a plausible maintainer edit (refactor, optimisation, "simplification", compatibility tweak, caching, error-message improvement) — not sabotage, no give-away comments,
  4. needs something SPECIFIC to manifest. It must NOT be exposed by ordinary use, and a randomized test throwing a few thousand ordinary inputs at the API should be unlikely to hit it.

For each change i in {{{i1},{i2}}} create the directory /tmp/seed/{pid}_<i>/ containing exactly:
  - patch.diff : output of  git -C /tmp/seed/wt_{pid} diff  for that change alone (relative to the unchanged HEAD; must apply with  git apply  on a clean checkout).
  - demo.py    : a small self-contained program, invoked as  /venv/bin/python demo.py <path-to-checkout>  that does sys.path.insert(0, sys.argv[1]) before importing ombott, exercises the property, prints what it observed, and exits with status 1 if the property is violated and 0 if it holds. It must exit 1 on a checkout with your patch applied and 0 on the unchanged checkout. Deterministic (no timing races: if threads are needed, control the interleaving explicitly with events/locks or sys.settrace), finishes in < 60 s, uses only the stdlib + the checkout.
  - meta.json  : {{"property": "{pid}", "summary": "<what the patch changes, 1-2 sentences>", "needs": "<what specific input/sequence/schedule is needed for the violation to manifest, and what does NOT trigger it>", "files": ["<files touched>"]}}

Procedure: read the relevant code in the worktree; design a change; apply it in the worktree; run the test suite (must be 82 passed); write and run demo.py against the patched worktree (must exit 1); save patch.diff;  git -C /tmp/seed/wt_{pid} checkout -- .  ; run demo.py against the clean worktree (must exit 0). Repeat for the second change. Leave the worktree clean (git checkout -- .) at the end. Verify each patch.diff applies cleanly with git apply --check on the clean worktree.

Final answer: for each change, one short paragraph: what it is, what is needed to trigger it, and the observed demo exit codes (patched / clean).
"""


def main():
    theme = sys.stdin.read() if sys.argv[1] == '-' else open(sys.argv[1]).read()
    out = sys.argv[2]
    os.makedirs(out, exist_ok=True)
    props = [json.loads(l) for l in open(f'{VERIF}/properties.jsonl')]
    want = set(sys.argv[3:])
    for p in props:
        pid = p['id']
        if want and pid not in want:
            continue
        ids = sorted((d for d in os.listdir(f'{VERIF}/seeded') if d.startswith(pid + '_')), key=lambda s: int(s.split('_')[1]))
        earlier = []
        for d in ids:
            m = json.load(open(f'{VERIF}/seeded/{d}/meta.json'))
            earlier.append('  - ' + m['summary'].replace('\n', ' ')[:260])
        n = max([int(d.split('_')[1]) for d in ids] or [0])
        txt = TEMPLATE.format(pid=pid, title=p['title'], statement=p['statement'], quant=p['quantifier']['text'],
                              earlier='\n'.join(earlier), theme=theme.strip(), i1=n + 1, i2=n + 2)
        open(f'{out}/{pid}.txt', 'w').write(txt)
        print(pid, n + 1, n + 2, len(txt))


if __name__ == '__main__':
    main()
