#!/venv/bin/python
"""Regenerates the seeded-change table of DESIGN.md (between the seeded-table markers) from seeded/*/meta.json and the notes below."""
import glob
import json
import os
import re

VERIF = os.path.dirname(os.path.dirname(os.path.abspath(__file__)))
NOTES = {
 # round 1
 'C02_1': 'missed at first; requests are now interleaved with the registration steps (history), not served after all of them',
 'C09_1': 'missed at first; reference applications get their own error objects (the process-wide ones were polluted together with the application under test)',
 'C10_2': 'missed at first; `listen` / `setitem` foreign operations added',
 'C11_1': 'missed at first; bounded exhaustive histories deepened to depth 4 (8 shards)',
 'C12_1': 'missed at first; deep-nesting JSON pool + grid with a buffer large enough to get past the size cap',
 'C12_2': 'caught, lost after a generator change, then made deterministic by the buffer-sweep grid',
 # round 2
 'C01_3': 'missed at first; regex pool now holds expressions spelled like the int/float masks, and the exhaustive small universe has a `re(-?\\d+)` wildcard next to `int`',
 'C03_3': 'missed at first; hook kinds `remove_self` / `add_after`, three requests per program, hook log judged against the hooks registered when the request started',
 'C03_4': 'missed at first; real seekable streams returned at a non-zero offset added to the outcome kinds',
 'C04_3': 'missed at first; content-type dimension (well-formed multipart body with epilogue under short reads)',
 'C04_4': 'missed at first; `max_body_size >= Content-Length` (incl. equal) as a configuration dimension',
 'C05_3': 'missed at first; every substitution inside the CRLF after chunk data must now be *rejected* (was: accepted-or-4xx)',
 'C07_3': 'missed at first; delimiter *suffixes* added to the adversarial alphabet',
 'C07_4': 'missed at first; values beginning with U+FEFF added',
 'C08_4': 'missed at first; `rex` route kind and same-kind scenario pairs, all single-preemption schedules at stride 1',
 'C08_5': 'missed at first; `expires` kind (non-string expiry on header and cookie)',
 'C09_3': 'missed at first; `longpath` / `longquery` kinds',
 'C10_3': 'missed at first; `status_str` / `status_int` kinds, exhaustive ordered kind pairs across two applications, references from fresh interpreter processes',
 'C10_4': 'missed at first; configuration dimension (stock vs own errors_map); default error objects snapshotted at import',
 'C12_3': 'missed at first; header-parameter runs (40-3000 backslashes / quotes / separators) as mutation and as a grid; watchdog exception no longer swallowed',
 'C12_4': 'found but mis-reported at first (watchdog exception swallowed by a gc callback); alarm re-arms, _Hang is a BaseException, chunked wire-truncation grid',
 'C13_3': 'missed at first; chunked requests that also carry a Content-Length',
 'C13_4': 'missed at first; multipart part with empty file name and large data; oracle "form text obtained by the handler <= threshold"',
 'C14_3': 'missed at first; folded shapes (CRLF + SP/HT) in the injection alphabet and grid',
 'C15_3': 'caught by chance at first, lost after a generator change; now a deterministic grid of equal-but-distinct value sequences (1, True, 1.0; 0, False, 0.0, -0.0; ...)',
 'C15_4': 'missed at first; two-secret sign/verify race under the deterministic scheduler',
 'C16_3': 'missed at first; the working directory alternates between two sites with the same relative layout',
 'C16_4': 'missed at first; case-variant twins of the root (Root/, ROOT/) with decoys',
 'C17_3': 'missed at first; boundary modification times (epoch 0, 0.5, 1, 2^31)',
 'C19_3': 'missed at first; CR / LF / TAB inside wildcard values',
 'C19_4': 'missed at first (then caught by chance, lost again); now a deterministic grid of rules with 1-14 wildcards (anonymous / named / mixed)',
 'C20_3': 'missed at first; 404 next to an existing wildcard route (doubled / trailing slashes, extra segment)',
 'C20_4': 'missed at first; payloads padded to 300-5000 characters before / after the marker',
 # round 3
 'C01_5': 'missed at first; registrations with overwrite=True on the same (pattern, method) under other wildcard names',
 'C01_6': 'missed at first; some rules are registered and removed again before the requests (the answer must depend on the surviving set only)',
 'C02_5': 'missed at first; verbs with punctuation (M-SEARCH, VERSION-CONTROL, X.PING) registered in plain-string form',
 'C02_6': 'missed at first; an overwrite=True registration on one thread against a request on another, every single-preemption schedule',
 'C03_5': 'missed at first; the class of the handler exception is generated (Unicode*Error, KeyError, OSError, StopIteration, custom ...)',
 'C03_6': 'missed at first; request paths with non-ASCII tails (the critical-error page echoes the path)',
 'C04_5': 'missed at first; max_body_size below Content-Length (413 expected) with the read audit still applied',
 'C04_6': 'missed at first; wsgi.input as a real seekable stream standing behind the bytes of an earlier request',
 'C05_5': 'missed at first; size fields with 14-40 leading zeros; oracle: whatever is accepted was ended by a consumed zero-size chunk line',
 'C05_6': 'missed at first; same new oracle (a negative size is not a zero-size chunk)',
 'C06_6': 'missed at first; a 12 KiB part-header block cut at every offset',
 'C07_5': 'missed at first; boundaries wrapped in legal punctuation (quotes, parentheses, colons ...)',
 'C08_6': 'missed at first; `chunked_ok` kind (two well-formed chunked requests concurrently)',
 'C08_7': 'missed at first; `header_case` kind (one header under two letter-case spellings)',
 'C10_5': 'missed at first; virtual-host configuration flavour (domain_map / app_name_header) and identical request data on differently configured applications',
 'C10_6': 'missed at first; `inject_arg` kind (handler writes into request.url_args of a wildcard-free route)',
 'C11_5': 'missed at first; one large history: 160 routes with distinct filter expressions come and go around a surviving filtered route',
 'C11_6': 'missed at first; hooks under a removed prefix are now tracked per slot: a slot written again is judged again',
 'C12_5': 'missed at first; grid of one name used by k text and m file parts (k, m <= 3) in every order; more same-name parts in the generator',
 'C12_6': 'missed at first; one control byte (all C0, DEL, high bytes) at marked positions of a part header line, as mutation and grid',
 'C13_5': 'caught by chance, lost after a generator change; now a grid where the running total lands exactly on the threshold before more text follows',
 'C13_6': 'missed at first; fault injection: the temporary directory is unusable while a body crosses the threshold',
 'C14_6': 'missed at first; 204 / 304 response on one thread against a plain request on another, every single-preemption schedule',
 'C15_5': 'missed at first; bytes secrets; signatures made with related keys (empty, NUL runs, single bytes / prefixes / case variants of the secret)',
 'C16_5': 'missed at first; a mirror tree that re-creates the absolute path of the root below another directory',
 'C16_6': 'missed at first; two concurrent static_file calls under every single-preemption schedule',
 'C17_5': 'missed at first; the process time zone is varied (fixed offsets) instead of pinned to UTC',
 'C18_5': 'missed at first; Content-Type with charset parameters for urlencoded bodies',
 'C18_6': 'missed at first; every request is served twice and the handler mutates what it got in between',
 'C19_5': 'missed at first; two threads calling url() on the same fresh Route, every single-preemption schedule',
 'C19_6': 'missed at first; values that Unicode normalisation would rewrite (combining sequences, OHM / ANGSTROM signs, compatibility ideographs)',
 'C20_5': 'missed at first; payload in 16 other request headers; fragments made only of characters naive token validations accept',
 'C20_6': 'missed at first; payload as value of well-known query keys (callback, jsonp, format ...) with JSON rendering',
 # round 4
 'C01_7': 'missed at first; anchored / look-behind / word-boundary expressions (^, \\A, \\b, \\B, (?<!..)) in the regex pool and a fixed grid of them behind literal text',
 'C01_8': 'missed at first; digit-like characters outside \\d (superscript, circled, Arabic-Indic, full-width digits) in the value pool',
 'C03_7': 'missed at first; handler kinds `http_response` / `error_again` (user error handlers that fail again), request served under a watchdog',
 'C03_8': 'missed at first; hook kind `rewrite_path` (a before_request hook that changes PATH_INFO decides the route)',
 'C04_7': 'missed at first; declared lengths from 1 MiB upward with a short stream; the spooled body must have the size actually received',
 'C04_8': 'missed at first; `wsgi.input_terminated` dimension with Content-Length 0 / absent / positive',
 'C05_7': 'missed at first; chunked requests that also carry a Content-Length (rotated over 0 / wire / payload length) through the WSGI path',
 'C06_7': 'missed at first; preambles of blank lines and text; the check then exposed a genuine split-dependence of the unchanged tree (repaired, /repo f69c9ac)',
 'C06_8': 'missed at first; parts with 6000 bytes of data so that long delimiter-free runs cross every buffer size',
 'C07_7': 'missed at first; uploads read in interleaved partial reads (a.read(k), b.read(k), request.body.read(k), a.read() ...)',
 'C08_8': 'missed at first; `resp_copy` kind (handler constructs / copies a response object) paired with `ok` and `expires`',
 'C08_9': 'missed at first; `form_fixed` kind (same boundary in both requests) and two-preemption schedules (A k steps, B m steps, A to the end, B to the end) on a stride',
 'C09_7': 'missed at first; `sess_mutate` kind (handler mutates the value of its signed cookie in place; the next request with the same cookie must see the original)',
 'C10_7': 'missed at first; foreign operation: construct an application from the configuration object of a live one, then set a configuration attribute; grid over attributes x kinds',
 'C10_8': 'missed at first; two applications on two threads, every single-preemption schedule for 12 same-kind pairs',
 'C11_8': 'missed at first; `rex` rules with selector suffix in the universe of the differential (removal by rule / by prefix must address them)',
 'C12_7': 'missed at first; field-count dimension: 1-20000 urlencoded fields / 1-5000 multipart parts as grid and generator',
 'C12_8': 'missed at first; parts declaring their own charset (known, unknown, non-text codecs, malformed labels) as grid and generator; delivered-value oracle made charset-tolerant',
 'C13_7': 'missed at first; small form followed by an epilogue (or preceded by a preamble) of S bytes: counts against max_body_size, request.body stays the body sent',
 'C14_7': 'missed at first; set_cookie values (plain, quoted, half-quoted, with CR/LF/NUL) judged as emitted',
 'C15_7': 'missed at first; value re-presented under a shorter / longer name with the moved characters spliced into payload or signature (fixed prefix-related name pairs + generated)',
 'C15_8': 'missed at first; signed values that are object graphs (shared and cyclic references) must read back with the same shape',
 'C17_8': 'missed at first; RFC 850 / asctime / numeric-zone dates each with a legacy `; length=N` parameter',
 'C18_7': 'missed at first; body stream read / moved / probed as JSON before the first access to the form',
 'C18_8': 'missed at first; two threads decoding a 4-pair and a 300 / 1100-field query or form, every single-preemption schedule of the small one',
 'C20_7': 'missed at first; 1-3 earlier requests for the same error on the same application with another Accept (HTML then JSON and the reverse)',
 # round 5
 'C01_10': 'missed at first; the registration history is now replayed on an application with requests served after EVERY step; grid: a more specific rule registered after the path was answered through a general one',
 'C02_9': 'missed at first; route hooks (per-prefix 404 handlers, on_route hooks) installed on prefixes of the rules at any step',
 'C02_10': 'missed at first; two threads editing the method table of one route (add / overwrite / remove), every single-preemption schedule of either thread',
 'C03_9': 'missed at first; iterables / files whose close() raises; start_response must have been called exactly once (a second call with exc_info was tolerated before)',
 'C03_10': 'missed at first; malformed string statuses in the pool - which exposed a genuine defect of the unchanged tree (`0200 OK`, `+200 OK` reached the server; repaired, /repo 23cc9f4)',
 'C04_9': 'missed at first; wsgi.input as an unbuffered io.RawIOBase stream (readinto, short reads) that holds more than the declared length',
 'C04_10': 'missed at first; between the two reads of request.body the handler re-assigns CONTENT_TYPE / a re-spelled CONTENT_LENGTH / a header / the query string through request[...]',
 'C05_9': 'missed at first; quoted-string chunk extensions (escaped quotes, separators inside the quotes) as generator and grid',
 'C05_10': 'missed at first; chunk-count dimension: 1-5000 one- and two-byte chunks',
 'C06_9': 'missed at first; bodies of 50-2500 short parts (one read buffer holds hundreds of sections)',
 'C08_10': 'missed at first; warm-up dimension: 9 / 17 sequential requests of one kind, then the other thread pre-empted at every step while that kind is served again (12 ordered pairs of handlers registered next to each other)',
 'C08_11': 'missed at first; `qs_reassign` kind (handler re-assigns QUERY_STRING / Cookie through request[...] after reading them) with single- and two-preemption schedules',
 'C09_9': 'missed at first; `neg_cl` kind (a different negative Content-Length per request) and a third census window on allocated memory blocks (strings / registry entries are invisible to the gc census)',
 'C09_10': 'missed at first; the site now has an on_route hook on a non-root rule and a per-prefix 404 handler (kinds `api_404`, `api_item`)',
 'C10_9': 'missed at first; `hugepath` kind (paths of 8200-16200 characters)',
 'C11_9': 'missed at first; verbs spelled in lower / mixed case in add(); one lower-case duplicate add in the alphabet of the bounded histories',
 'C12_9': 'missed at first; a fifth of the cases and a fixed grid are served on a worker thread (not the thread that imported the framework)',
 'C13_9': 'missed at first; trailer sections of 0-40000 lines after the last chunk: the stream may be pulled at most limit + one buffer beyond the end of the body',
 'C13_10': 'missed at first; a chunk-size line with a minus sign in front of any chunk (an over-limit body must still be refused)',
 'C15_9': 'missed at first; cookies set under statuses 200-500 (incl. 204, 304), on the application response and on returned / raised response objects',
 'C15_10': 'missed at first; the Cookie header of a request object that was already asked is replaced through request[...] (tampered variants are presented to a request that has just read the genuine cookie)',
 'C16_9': 'missed at first; directories literally called ~, ~/static, $HOME, ~user in the working directory while HOME points at a decoy tree',
 'C17_10': 'missed at first; a first range element without a dash names no range: 416, never a 206 (was judged leniently)',
 'C18_9': 'missed at first; form bodies delivered in short reads of 1-40 bytes',
 'C19_9': 'missed at first; where the router matches a path the reference does not, the router\'s own assignment is round-tripped; signed / blank / underscore number spellings behind another wildcard',
 'C19_10': 'missed at first; sibling rules (same wildcard position with / without a converting filter) registered before the rule under test',
 'C20_10': 'missed at first; URL-shaped paths (`/http://[x`, `//host/..`, fragments) as the whole path (`404-root` kind)',
 # round 6
 'C01_11': 'missed at first; a rule may lose its method again through the Route object: it stays, answers 405 and still beats a sibling wildcard rule',
 'C01_12': 'missed at first; a further method attached through the Route object (no wildcard names of its own), behind a rule that shares a wildcard head',
 'C02_11': 'missed at first; requests with an Accept header asking for a JSON error document (the 405 must still carry Allow)',
 'C03_11': 'missed at first; two threads adding / removing hooks at the same time, every single-preemption schedule of either thread',
 'C03_12': 'missed at first; iterables of bytearray / memoryview items - which exposed a genuine defect of the unchanged tree (abandoned iterable never closed; repaired, /repo 8aa146c)',
 'C04_11': 'missed at first; two bodies read concurrently on two threads (readinto and read streams), every single-preemption schedule',
 'C04_12': 'missed at first; Content-Length spelled with leading zeros',
 'C05_11': 'missed at first; a well-formed multipart document with epilogue as payload under a multipart content type, every truncation and CRLF fault through WSGI',
 'C05_12': 'missed at first; Transfer-Encoding spelled as a list ending in chunked (letter case, blanks, empty elements, gzip first)',
 'C07_11': 'missed at first; every upload is moved around like a file (end- and current-relative seeks beyond its own start and end)',
 'C07_12': 'missed at first; chunk sizes spelled with upper-case hex letters (and zero-padded)',
 'C08_12': 'missed at first; `urlbuild` kind (reverse routing inside a handler) - which exposed a genuine defect of the unchanged tree (shared rule parser; repaired, /repo ed51c0a)',
 'C08_13': 'missed at first; `manyheaders` kind (150 fresh header names per request, more than any small memo holds) after one warm request of the other kind',
 'C09_11': 'missed at first; `oneshot` kind (three run-once after_request hooks that unregister themselves)',
 'C09_12': 'missed at first; histories on an application with a configured errors_map whose texts need escaping; `prepared_error` kind',
 'C11_12': 'missed at first; removal through the Route object an earlier add() returned (possibly stale), in the generator and the bounded alphabet',
 'C12_11': 'missed at first; boundaries of 69-1000 characters, well-formed / truncated / empty bodies, every reader',
 'C12_12': 'missed at first; uploads are read piecewise (first bytes of every upload, a glance at request.body, then the rest) instead of seek(0) + read()',
 'C13_11': 'missed at first; the limits handed over as NameSpace / configuration class / class inheriting them from an intermediate class / through setup()',
 'C13_12': 'missed at first; request headers about the connection (keep-alive, close, Expect)',
 'C14_11': 'missed at first; a HeaderDict instance (filled through its own constructor / update()) as constructor argument',
 'C14_12': 'missed at first; a value appended to a COPY of the header dict must not be emitted by the response',
 'C15_11': 'missed at first; the response is copied with copy() and the same cookie names are set again on the other object',
 'C15_12': 'missed at first; signed values that are or refer to importable objects (os.stat_result, socket constants, functions / builtins by reference, datetime, Decimal ...)',
 'C16_11': 'missed at first; the working directory itself as root, spelled as the empty string, `.` or `./`',
 'C17_12': 'missed at first; multi-range headers with 9-5000 ranges (the first one decides)',
 'C18_11': 'missed at first; chunk sizes with hex letters in either case',
 'C18_12': 'missed at first; Request.copy() taken after the form was read must decode the same pairs',
 'C19_11': 'missed at first; 1-3 extra slashes at the very start / end of the request path',
 'C20_11': 'missed at first; client headers of 11 kinds of user agents on every request',
 'C20_12': 'missed at first; debug switched off at run time after error pages were rendered in debug mode',
 'C16_12': 'caught by chance at first, lost after an oracle correction; now a grid of dot-dot spelled with a control character / blank / escape inside or beside it',
}


def main():
    rows = []
    for d in sorted(glob.glob(os.path.join(VERIF, 'seeded', '*', 'meta.json'))):
        m = json.load(open(d))
        sid = os.path.basename(os.path.dirname(d))
        summ = re.sub(r'\s+', ' ', m.get('summary', ''))
        summ = summ[:150] + ('…' if len(summ) > 150 else '')
        rows.append(f"| {sid} | {summ.replace('|', '/')} | {m['breaks_property']} quick | {NOTES.get(sid, 'caught as built')} |")
    p = os.path.join(VERIF, 'DESIGN.md')
    s = open(p).read()
    a, b = s.index('<!-- seeded-table-begin -->'), s.index('<!-- seeded-table-end -->')
    s = s[:a] + '<!-- seeded-table-begin -->\n| id | change (summary by its author) | caught by | note |\n|---|---|---|---|\n' + '\n'.join(rows) + '\n' + s[b:]
    open(p, 'w').write(s)
    n_as_built = sum(1 for r in rows if r.endswith('caught as built |'))
    print(len(rows), 'rows;', n_as_built, 'caught as built')


if __name__ == '__main__':
    main()
