#!/venv/bin/python
"""Coverage-guided fuzz target (atheris / libFuzzer) with the semantic oracle of the check inside the target.
usage: fuzz_target.py <C05|C06|C12> [libFuzzer flags] <corpus dir>
The bytes are decoded into a structured case by the check module's fuzz_decode(); fuzz_one() runs the same oracle the
Hypothesis tier uses and raises on a violation, which libFuzzer records as a crash artefact."""
import os
import sys

VERIF = os.path.dirname(os.path.dirname(os.path.abspath(__file__)))
REPO = os.environ.get('VERIF_REPO', '/repo')
sys.path.insert(0, VERIF)
sys.path.insert(0, REPO)
sys.path.append(os.path.join(VERIF, '.deps'))
sys.dont_write_bytecode = True

import atheris  # noqa: E402

prop = sys.argv[1].upper()
argv = [sys.argv[0]] + sys.argv[2:]

with atheris.instrument_imports(include=['ombott']):
    import ombott  # noqa: F401,E402
    import ombott.request_pkg.multipart  # noqa: F401,E402
    import ombott.request_pkg.body_mixin  # noqa: F401,E402

import importlib  # noqa: E402
from run_check import CHECKS  # noqa: E402
from vlib import core  # noqa: E402

mod = importlib.import_module(CHECKS[prop])
ctx = core.Ctx(prop, 'thorough', 0)


def test_one(data):
    case = mod.fuzz_decode(data)
    if case is None:
        return
    mod.fuzz_one(ctx, case)


atheris.Setup(argv, test_one)
atheris.Fuzz()
