#!/venv/bin/python
"""Regenerates MANIFEST.json from the table below; a property is claimed only when its check module exists."""
import json
import os
import sys

VERIF = os.path.dirname(os.path.dirname(os.path.abspath(__file__)))
sys.path.insert(0, VERIF)
from run_check import CHECKS  # noqa

T = {
    'C01': ('exploration', 'Hypothesis-generated rule sets (ASTs rendered in every syntax flavour) x paths, differential against an '
            'independent rule-by-rule reference matcher; plus exhaustive small rule/path universe',
            'reference matcher (vlib/rules.py) is trusted; empty wildcard bindings and regex-dot-vs-newline are counted, not judged',
            'PBT differential vs reference matcher + small-scope enumeration', '5/C01'),
    'C02': ('exploration', 'generated method-registration scripts per route vs a dict model; expected handler / 405 Allow set / 404 compared on '
            'RadiRouter.resolve and on the WSGI response', 'model of add/overwrite/remove_method semantics', 'PBT model-based (dict model of method tables)', '5/C02'),
    'C03': ('exploration', 'generated handler programs (DSL) x methods x statuses through Ombott.__call__, judged by an independent PEP 3333 validator '
            'plus body/Content-Length/close/hook-order oracles', 'validator is own code; domain excludes mixed str/bytes iterables and failures after the first chunk',
            'PBT over handler programs with a validity-predicate oracle', '5/C03'),
    'C04': ('fault_enumeration', 'every read-fragmentation (all compositions of small bodies, generated caps for larger ones) of the input stream is a fault '
            'sequence; the body is compared byte for byte with the declared prefix of the stream and every read(n) is audited',
            'stream model: short reads allowed, b"" only at EOF', 'PBT + exhaustive short-read enumeration, recording stream', '5/C04'),
    'C05': ('fault_enumeration', 'generated chunked encodings (harness encoder) decoded under generated fragmentation; every strict prefix, every missing CRLF '
            'and every single-byte framing corruption enumerated per encoding', 'encoder is own code; buffer >= longest size line (stated precondition)',
            'PBT round-trip + exhaustive truncation/corruption enumeration', '5/C05'),
    'C06': ('fault_enumeration', 'metamorphic: parse(any division of body or prefix) == parse(one piece), all single cuts exhaustively, double cuts '
            'sampled (quick) / exhaustive (thorough); anchored to the encoder ground-truth offsets', 'well-formed bodies come from the harness encoder',
            'PBT metamorphic (split-invariance) + exhaustive cut enumeration (+ atheris differential in thorough)', '5/C06'),
    'C07': ('exploration', 'round-trip: harness multipart encoder -> WSGI POST -> forms/files/POST compared with the generated field list',
            'encoder is own code; names free of quote/CR/LF; empty filename excluded', 'PBT round-trip', '5/C07'),
    'C08': ('exploration', 'deterministic line-granular thread scheduler (sys.settrace) owns the interleaving of 2-3 requests; every single-preemption '
            'schedule per scenario exhaustively, generated multi-preemption schedules beyond; each response compared with the solo response',
            'interleavings at Python line granularity under the GIL', 'schedule enumeration + PBT over schedules, differential vs solo run', '5/C08'),
    'C09': ('exploration', 'stateful machine over request kinds + all ordered pairs; response k compared with the same request on a fresh app; '
            'weakref census for retention', 'retention: <=10 live per-request objects, no growth between N=160 and N=400, <=40 more gc objects; pair-grid references from fresh processes', 'stateful PBT, differential vs fresh app; weakref census', '5/C09'),
    'C10': ('exploration', 'generated arrangements of 2-3 apps (nested, alternating, copy(), construction while serving), probes before/after the foreign '
            'operation, single-threaded and interleaved with the scheduler', 'see known findings for the open defect', 'PBT over arrangement programs, differential vs solo', '5/C10'),
    'C11': ('exploration', 'rule-based state machine of router edits against a survivor model; after each step every probe path compared with a router '
            'rebuilt from the survivors; depth-bounded exhaustive op sequences with state merging', 'hooks under prefix removal unjudged', 'stateful PBT model-based + bounded exhaustive histories', '5/C11'),
    'C12': ('exploration', 'raw and grammar-mutated bodies x content types x framings x accessors; status must be 2xx/4xx, nothing on wsgi.errors, '
            'delivered fields must be delimiter-terminated parts of the sent body', '30 s watchdog for hangs', 'PBT/mutation fuzzing with validity oracle (+ atheris in thorough)', '5/C12'),
    'C13': ('exploration', 'grid + generated sizes around max_body_size / max_memfile_size under both framings; status, bytes consumed from a recording stream, '
            'body type compared with the model', 'limit + one buffer read bound', 'PBT boundary grid with recording stream', '5/C13'),
    'C14': ('exploration', 'generated header values x all listed setter entry points x statuses; rejection of CR/LF/NUL, Latin-1/UTF-8 round trip, multi-value order, '
            'blacklists on headerlist and on start_response', 'entry points as listed by the property', 'PBT with round-trip and rejection oracles', '5/C14'),
    'C15': ('exploration', 'cookie round-trip through a harness browser; exhaustive single-byte tampering/truncation of signed cookies with canary pickles and an '
            'instrumented unpickler', 'structural tamper classes only', 'PBT round-trip + exhaustive tamper enumeration with canaries', '5/C15'),
    'C16': ('exploration', 'generated names from traversal segments over a real tree; independent normalisation oracle + audit hook recording every open()',
            'POSIX filesystem', 'PBT with audit-hook open recorder', '5/C16'),
    'C17': ('exploration', 'file lengths x RFC 7233 grammar and near misses x conditional dates x GET/HEAD; 206/416/200/304 judged by an independent range model',
            'streaming buffer lowered by the harness for cheap exploration', 'PBT differential vs RFC 7233 model', '5/C17'),
    'C18': ('exploration', 'pairs -> urlencode (harness) -> query/forms/params round trip; totality over raw strings', 'non-empty keys', 'PBT round-trip + totality', '5/C18'),
    'C19': ('exploration', 'rule ASTs x constructed matching paths; url(params) must resolve back to the same params, literals verbatim in order',
            'see known findings (float formatting)', 'PBT round-trip', '5/C19'),
    'C20': ('exploration', 'payload-bearing paths/queries/hosts x error kinds x HTML/JSON; tag skeleton equality with a benign request and no raw payload markup',
            'html.parser skeleton', 'PBT metamorphic (skeleton invariance)', '5/C20'),
}

NA_REASON = 'check not yet built in this round (planned, see DESIGN.md section 5)'


def main():
    checks, na = [], []
    for pid in sorted(CHECKS):
        modfile = os.path.join(VERIF, *CHECKS[pid].split('.')) + '.py'
        level, text, note, tech, ref = T[pid]
        if not os.path.exists(modfile):
            na.append({'property_id': pid, 'reason': NA_REASON})
            continue
        pre = 'PYTHONHASHSEED=0 TZ=UTC /venv/bin/python run_check.py'
        checks.append({
            'property_id': pid,
            'quick_cmd': f'{pre} {pid} --tier quick',
            'thorough_cmd': f'{pre} {pid} --tier thorough',
            'evidence_file': f'/verif/evidence/{pid}.json',
            'replay_cmd_template': f'{pre} {pid} --replay {{path}}',
            'engine': 'hypothesis+enumeration',
            'level_claimed': {'category': level, 'text': text, 'design_ref': ref},
            'level_note': note,
            'technique': tech,
        })
    m = {
        'version': 1,
        'setup_cmd': 'sh ./setup.sh',
        'hooks': {
            'guard': 'OMBOTT_VERIF',
            'enable': 'no source hooks: all observation is harness-side (recording streams, start_response recorder, sys.settrace scheduler, audit hook, weakrefs)',
            'baseline_off_cmd': 'cd /repo && /venv/bin/python -m pytest -q -p no:cacheprovider',
            'source_commits': [],
            'add_only': True,
        },
        'engines': [
            {'name': 'hypothesis', 'path': '/venv/lib/python3.12/site-packages/hypothesis', 'serves_properties': [c['property_id'] for c in checks],
             'kind_free_text': 'property-based generation, stateful machines, shrinking; seeded from VERIF_SEED'},
            {'name': 'enumeration', 'path': '/verif/vlib', 'serves_properties': [c['property_id'] for c in checks],
             'kind_free_text': 'exhaustive small-scope enumeration of cut positions / truncations / schedules / histories'},
            {'name': 'atheris', 'path': '/verif/.deps/atheris', 'serves_properties': [p for p in ('C05', 'C06', 'C12') if any(c['property_id'] == p for c in checks)],
             'kind_free_text': 'coverage-guided libFuzzer campaigns (thorough tier only) with the semantic oracle inside the target; installed offline by setup.sh'},
            {'name': 'scheduler', 'path': '/verif/vlib/sched.py', 'serves_properties': [p for p in ('C08', 'C10', 'C15') if any(c['property_id'] == p for c in checks)],
             'kind_free_text': 'deterministic sys.settrace thread scheduler: schedules are data (enumerated / generated), not timing'},
        ],
        'checks': checks,
        'not_applicable': na,
        'notes': 'Single entry run_check.py; exit 2 = harness error/inconclusive. Known findings: known_findings.txt. Design: DESIGN.md.',
    }
    with open(os.path.join(VERIF, 'MANIFEST.json'), 'w') as f:
        json.dump(m, f, indent=1)
    try:
        import jsonschema
        jsonschema.validate(m, json.load(open('/root/.vp/MANIFEST.schema.json')))
        print('manifest valid;', len(checks), 'checks,', len(na), 'not yet claimed')
    except ImportError:
        print('manifest written (jsonschema not available here);', len(checks), 'checks')


if __name__ == '__main__':
    main()
