#!/bin/sh
# Offline setup: Hypothesis into /venv (already there on this image; re-installed from the wheelhouse if missing),
# atheris into /verif/.deps for the thorough fuzz tiers (optional: checks fall back to Hypothesis only).
set -u
cd "$(dirname "$0")"
WH=/opt/veriftools/wheels
/venv/bin/python -c "import hypothesis" 2>/dev/null || \
  /venv/bin/pip install --no-index --find-links "$WH" hypothesis || exit 1
if [ ! -d .deps/atheris ]; then
  /venv/bin/pip install -q --no-index --find-links "$WH" --target .deps atheris >/dev/null 2>&1 || \
    echo "setup: atheris not installable, thorough tiers run Hypothesis/enumeration only"
fi
/venv/bin/python -c "import hypothesis, sys; print('setup ok: hypothesis', hypothesis.__version__)"
