"""Encoders written for the harness (they never call the repo's parsers): chunked transfer
coding, browser-style multipart/form-data with ground-truth section offsets, urlencoding."""
from urllib.parse import quote, quote_plus


# ------------------------------------------------------------------ chunked
def chunk_lines(payload, sizes, spell=None, exts=None):
    """Split payload into chunks: chunk i has sizes[i] bytes (>= 1), the remainder after the
    listed sizes forms one last chunk.  Returns [(size_line_bytes, data_bytes)] without the zero chunk."""
    out = []
    pos = 0
    i = 0
    while pos < len(payload):
        sz = sizes[i] if i < len(sizes) else len(payload) - pos
        sz = max(1, min(sz, len(payload) - pos))
        data = payload[pos:pos + sz]
        sp = spell[i % len(spell)] if spell else {}
        hx = '%x' % sz
        if sp.get('upper'):
            hx = hx.upper()
        hx = '0' * sp.get('zeros', 0) + hx
        ext = (exts[i % len(exts)] if exts else None) or ''
        line = hx.encode() + (b';' + ext.encode() if ext else b'') + b'\r\n'
        out.append((line, data))
        pos += sz
        i += 1
    return out


def encode_chunked(payload, sizes, spell=None, exts=None, last_ext='', last_zeros=0, trailers=(), final_crlf=True):
    """Returns (encoded bytes, layout) where layout lists framing regions:
       [('size', start, end), ('data', start, end), ('crlf', start, end), ..., ('last', start, end), ('trailer', s, e)]"""
    out = bytearray()
    layout = []
    for line, data in chunk_lines(payload, sizes, spell, exts):
        layout.append(('size', len(out), len(out) + len(line)))
        out += line
        layout.append(('data', len(out), len(out) + len(data)))
        out += data
        layout.append(('crlf', len(out), len(out) + 2))
        out += b'\r\n'
    last = b'0' * (1 + last_zeros) + (b';' + last_ext.encode() if last_ext else b'') + b'\r\n'
    layout.append(('last', len(out), len(out) + len(last)))
    out += last
    t0 = len(out)
    for t in trailers:
        out += t.encode() + b'\r\n'
    if final_crlf:
        out += b'\r\n'
    if len(out) > t0:
        layout.append(('trailer', t0, len(out)))
    return bytes(out), layout


# ---------------------------------------------------------------- multipart
def _hq(s):
    return s


def encode_multipart(boundary, parts, preamble=b'', epilogue=b'', close=True):
    """parts: list of dicts {name, value(bytes), filename?, ctype?, extra_headers?[(k, v)]}; name/filename are str.
    Returns (body, truth) where truth = {'sections': [('data', s, e), ('headers', s, e), ('data', s, e), ...],
    'delims': [(start, end) of each CRLF--boundary (or initial --boundary) occurrence incl. closing],
    'close': (start, end) of the two closing hyphens, 'hdr_ends': [(s, e) of each CRLFCRLF]}.
    Section offsets follow the parser's contract: first data section = preamble before the first delimiter."""
    b = boundary if isinstance(boundary, bytes) else boundary.encode()
    out = bytearray()
    sections, delims, hdr_ends = [], [], []
    out += preamble
    first = True
    for p in parts:
        if first:
            if preamble:
                # preamble must end with CRLF for the delimiter to be recognised
                d0 = len(out) - 2
                sections.append(('data', 0, d0))
                delims.append((d0, len(out) + 2 + len(b)))
            else:
                sections.append(('data', 0, 0))
                delims.append((0, 2 + len(b)))
            out += b'--' + b
            first = False
        else:
            delims.append((len(out), len(out) + 4 + len(b)))
            out += b'\r\n--' + b
        out += b'\r\n'
        hs = len(out)
        disp = 'Content-Disposition: form-data; name="%s"' % p['name']
        if p.get('filename') is not None:
            disp += '; filename="%s"' % p['filename']
        lines = [disp.encode('utf8')]
        if p.get('ctype'):
            lines.append(('Content-Type: %s' % p['ctype']).encode('utf8'))
        for k, v in p.get('extra_headers') or ():
            lines.append(('%s: %s' % (k, v)).encode('utf8'))
        out += b'\r\n'.join(lines)
        he = len(out)
        sections.append(('headers', hs, he))
        hdr_ends.append((he, he + 4))
        out += b'\r\n\r\n'
        ds = len(out)
        out += p['value']
        sections.append(('data', ds, len(out)))
    close_pos = None
    if close:
        if first:
            # no parts at all: just the closing delimiter
            if preamble:
                d0 = len(out) - 2
                sections.append(('data', 0, d0))
                delims.append((d0, len(out) + 2 + len(b)))
            else:
                sections.append(('data', 0, 0))
                delims.append((0, 2 + len(b)))
            out += b'--' + b
        else:
            delims.append((len(out), len(out) + 4 + len(b)))
            out += b'\r\n--' + b
        close_pos = (len(out), len(out) + 2)
        out += b'--'
        out += epilogue
    return bytes(out), {'sections': sections, 'delims': delims, 'close': close_pos, 'hdr_ends': hdr_ends}


def sanitize_part_data(boundary, data):
    """Make `data` legal as part content: CRLF + data must not contain CRLF--boundary.
    Breaks accidental occurrences by inserting a byte (construction, not rejection)."""
    b = boundary if isinstance(boundary, bytes) else boundary.encode()
    tok = b'\r\n--' + b
    x = b'\r\n' + data
    n = 0
    while True:
        i = x.find(tok)
        if i < 0:
            break
        j = i + len(tok) - 1
        x = x[:j] + b'#' + x[j:]      # '#' is not a boundary character, so it cannot be part of (or recreate) the delimiter
        n += 1
    return x[2:], n


# --------------------------------------------------------------- urlencoded
def encode_pairs(pairs, style='plus'):
    q = quote_plus if style == 'plus' else (lambda s: quote(s, safe=''))
    return '&'.join(f'{q(k)}={q(v)}' for k, v in pairs)
