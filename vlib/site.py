"""A small fixed application ("site") with one route per request kind, and request builders for each kind.
Used by the history (C09), thread (C08) and multi-application (C10) checks: every request is a pure function of (kind, n)."""
import io

from .encoders import encode_multipart
from .wsgi import make_environ

KINDS = ['ok', 'ok_json_accept', 'notfound', 'notfound_json', 'wrongverb', 'badpath', 'badchunk', 'oversized', 'badmultipart', 'badjson', 'crash', 'raised', 'gen', 'form',
         'cookie_then_abort', 'head_ok']


class Env(dict):
    """environ as a dict subclass, so that it can be weakly referenced (retention census)."""
    __slots__ = ('__weakref__',)


class Stream(io.BytesIO):
    pass


def make_app(probe=None, config=None, private_errors=False, app=None, foreign=None):
    """probe(app, where) is called inside handlers (C08/C10 use it to read request/response attributes).
    private_errors: give the application its own error objects instead of the process-wide ones of DefaultConfig.errors_map
    (reference applications use this, so that nothing they do can reach the application under test through a shared object)."""
    import ombott
    cfg = {'max_body_size': 200, 'max_memfile_size': 64}
    if private_errors:
        cfg['errors_map'] = {k: ombott.HTTPError(v.status_code, v.body) for k, v in ombott.DefaultConfig.errors_map.items()}
    cfg.update(config or {})
    if app is None:
        app = ombott.Ombott(cfg)
    else:
        app.setup(cfg)          # an existing application (the module-level default app) gets the same configuration
    rq, rs = app.request, app.response
    # foreign: dict with an optional callable under 'act', run in the middle of the /foreign handler (C10: nested calls, copy(), construction)
    foreign = foreign if foreign is not None else {}

    @app.route('/foreign', overwrite=True)
    def foreign_handler():
        q = rq.query.get('q', '')
        rs.headers['X-Before'] = 'b' + q
        rs.set_cookie('fc', 'f' + q)
        p('foreign:before')
        act = foreign.get('act')
        if act:
            act(app)
        p('foreign:after')
        rs.headers['X-After'] = 'a' + rq.query.get('q', '')
        return 'foreign %s %s %s' % (q, rq.path, rq.get_cookie('seen', 'none'))

    def p(where):
        if probe is not None:
            probe(app, where)

    @app.route('/ok', overwrite=True)
    def ok():
        p('ok:start')
        q = rq.query.get('q', '')
        rs.set_cookie('sid', 's' + q)
        rs.headers['X-Req'] = q
        if q and q[-1] in '13579':
            rs.status = 201
        c = rq.get_cookie('seen', 'none')
        p('ok:end')
        return 'ok %s %s %s' % (q, c, rq.headers.get('X-In', '-'))

    @app.route('/only', method='POST', overwrite=True)
    def only():
        return 'posted'

    @app.route('/body', method='POST', overwrite=True)
    def body():
        p('body:start')
        n = len(rq.body.read())
        p('body:end')
        return 'len %d' % n

    @app.route('/form', method='POST', overwrite=True)
    def form():
        p('form:start')
        f = rq.forms
        out = 'form ' + ','.join('%s=%s' % (k, f[k]) for k in sorted(f))
        p('form:end')
        return out

    @app.route('/json', method='POST', overwrite=True)
    def js():
        return 'json %r' % (rq.json,)

    @app.route('/crash', overwrite=True)
    def crash():
        rs.headers['X-Before-Crash'] = rq.query.get('q', '')
        rs.set_cookie('crashcookie', 'c')
        raise RuntimeError('crash ' + rq.query.get('q', ''))

    @app.route('/raised', overwrite=True)
    def raised():
        q = rq.query.get('q', '')
        r = ombott.HTTPResponse('raised ' + q, 202, X_Raised=q)
        r.set_cookie('rc', 'r' + q)
        raise r

    @app.route('/gen', overwrite=True)
    def gen():
        q = rq.query.get('q', '')
        rs.headers['X-Gen'] = q

        def g():
            yield 'gen '
            p('gen:inside')
            yield q
            yield ' ' + rq.query.get('q', '')
        return g()

    @app.route('/abort', overwrite=True)
    def ab():
        rs.set_cookie('pre', 'abort' + rq.query.get('q', ''))
        rs.headers['X-Pre'] = 'set-before-abort'
        ombott.abort(403, 'no ' + rq.query.get('q', ''))
    return app


def make_env(kind, n, stream_cls=Stream):
    q = 'q=%d%s' % (n, 'x' * (n % 7))
    if kind == 'ok':
        return _e('GET', '/ok', q, headers={'Cookie': 'seen=v%d' % n, 'X-In': 'in%d' % n})
    if kind == 'foreign':
        return _e('GET', '/foreign', q, headers={'Cookie': 'seen=f%d' % n})
    if kind == 'head_ok':
        return _e('HEAD', '/ok', q)
    if kind == 'ok_json_accept':
        return _e('GET', '/ok', q, headers={'Accept': 'application/json'})
    if kind == 'notfound':
        return _e('GET', '/missing/%d' % n, q)
    if kind == 'notfound_json':
        return _e('GET', '/missing/%d' % n, q, headers={'Accept': 'application/json'})
    if kind == 'wrongverb':
        return _e('GET', '/only', q)
    if kind == 'badpath':
        return _e('GET', '/', q, raw_path='/\xff%d' % n)
    if kind == 'badchunk':
        return _e('POST', '/body', q, stream=stream_cls(b'5\r\nabc'), content_length=None, headers={'Transfer-Encoding': 'chunked', 'Accept': 'application/json' if n % 2 else 'text/html'})
    if kind == 'oversized':
        data = b'z' * (201 + n % 5)
        return _e('POST', '/body', q, stream=stream_cls(data), content_length=len(data), headers={'Accept': 'application/json' if n % 2 else 'text/html'})
    if kind == 'badmultipart':
        b = ('bnd%d' % n)
        data = ('--%s\r\nContent-Disposition: form-data; name="a"\r\n\r\nvalue without closing delimiter %d' % (b, n)).encode()
        return _e('POST', '/form', q, stream=stream_cls(data), content_length=len(data), headers={'Content-Type': 'multipart/form-data; boundary=' + b})
    if kind == 'form':
        b = ('B%dnd' % n)
        data, _ = encode_multipart(b, [{'name': 'a', 'value': b'v%d' % n}, {'name': 'b', 'value': b'w'}], b'', b'\r\n')
        return _e('POST', '/form', q, stream=stream_cls(data), content_length=len(data), headers={'Content-Type': 'multipart/form-data; boundary=' + b})
    if kind == 'badjson':
        data = b'{"a": %d' % n
        return _e('POST', '/json', q, stream=stream_cls(data), content_length=len(data), headers={'Content-Type': 'application/json', 'Accept': 'application/json' if n % 2 else '*/*'})
    if kind == 'crash':
        return _e('GET', '/crash', q)
    if kind == 'raised':
        return _e('GET', '/raised', q)
    if kind == 'gen':
        return _e('GET', '/gen', q)
    if kind == 'cookie_then_abort':
        return _e('GET', '/abort', q)
    raise AssertionError(kind)


def _e(method, path, qs, **kw):
    return Env(make_environ(method, path, qs=qs, **kw))
