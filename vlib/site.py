"""A small fixed application ("site") with one route per request kind, and request builders for each kind.
Used by the history (C09), thread (C08) and multi-application (C10) checks: every request is a pure function of (kind, n)."""
import io

from .encoders import encode_multipart
from .wsgi import make_environ

KINDS = ['ok', 'ok_json_accept', 'notfound', 'notfound_json', 'wrongverb', 'badpath', 'badchunk', 'oversized', 'badmultipart', 'badjson', 'crash', 'raised', 'gen', 'form',
         'cookie_then_abort', 'head_ok', 'rex', 'typed', 'expires', 'longpath', 'longquery', 'status_str', 'status_int', 'signed', 'urlinfo', 'auth', 'bigform', 'chunked_ok', 'header_case', 'inject_arg', 'notmodified', 'nocontent', 'blog_direct', 'dm_info', 'resp_copy', 'form_fixed', 'sess_mutate', 'qs_reassign', 'api_404', 'api_item', 'neg_cl', 'hugepath', 'urlbuild', 'manyheaders', 'emptyform', 'emptybody', 'upload_headers', 'latin_gen', 'hdr_types', 'notmod_noetag', 'badstart']


# kinds for the thread check (C08) only, kept out of KINDS so that the all-pairs grids of the history / multi-application checks do not grow:
# a code WITHOUT a standard reason phrase given as text with a phrase of the request's own / as a number (set on the response, raised, aborted);
# text streamed piece by piece in a charset whose encoder keeps state between the pieces (byte order mark)
KINDS_THREADS = ['reason_text', 'reason_int', 'reason_raise_text', 'reason_abort_int', 'bom16_gen', 'bom32_gen', 'bomsig_gen']
# kinds for sequential histories only (their handlers change application-wide state on purpose: hooks, a shared prepared error object)
KINDS_SEQ = KINDS + ['oneshot', 'prepared_error', 'static_plain', 'static_range', 'static_ims', 'static_dl']       # (static_file reads the module-level request: outside the K10 shim only)

# more kinds for sequential histories: verbs of every sort on routes registered for GET only (HEAD is answered through GET, the others are refused with an Allow list),
# arbitrary verbs on a route registered for ANY, bodies of several sizes beyond max_memfile_size (spilled to a file) read to EOF through request.body
KINDS_SEQ = KINDS_SEQ + ['verb_on_get_route', 'verb_on_any_route', 'spilled_body']

_DEFAULT_ERRORS = []


def _default_errors():
    """(error class, status, body) of the stock errors_map, captured the first time it is needed (before any application under test exists),
    so that later changes to the process-wide map cannot leak into reference applications."""
    if not _DEFAULT_ERRORS:
        import ombott
        _DEFAULT_ERRORS.extend((k, v.status_code, v.body) for k, v in ombott.DefaultConfig.errors_map.items())
    return _DEFAULT_ERRORS


def domain_config():
    """A configuration with virtual hosting: requests for host blog.* are served below /blog, the application name travels in an environ key."""
    return {'domain_map': (lambda host: 'blog' if (host or '').startswith('blog.') else None), 'app_name_header': 'HTTP_X_VERIF_APP'}


def custom_errors():
    """An errors_map a user might configure: other statuses than the stock ones."""
    import ombott
    from ombott.request_pkg import errors as rqe
    # (the texts hold characters an HTML page has to escape: these objects outlive the requests that hit them)
    return {rqe.RequestError: ombott.HTTPError(422, 'custom: can\'t process <this> & "that"'), rqe.BodySizeError: ombott.HTTPError(413, 'custom: can\'t accept more than <limit> bytes & no "more"'),
            rqe.BodyParsingError: ombott.HTTPError(422, 'custom: cannot parse <body> & \'rest\'')}


_STATIC = {}


def static_dir():
    if 'dir' not in _STATIC:
        import atexit, os, shutil, tempfile
        d = tempfile.mkdtemp(prefix='verif-site-')
        for name, data in (('doc.txt', b'0123456789abcdefghij'), ('empty.txt', b''), ('arch.tgz', b'not really an archive')):
            with open(os.path.join(d, name), 'wb') as f:
                f.write(data)
            os.utime(os.path.join(d, name), (1000000000, 1000000000))
        _STATIC['dir'] = d
        atexit.register(shutil.rmtree, d, True)
    return _STATIC['dir']


class Env(dict):
    """environ as a dict subclass, so that it can be weakly referenced (retention census)."""
    __slots__ = ('__weakref__',)


class Stream(io.BytesIO):
    pass


def make_app(probe=None, config=None, private_errors=False, app=None, foreign=None):
    """probe(app, where) is called inside handlers (C08/C10 use it to read request/response attributes).
    private_errors: give the application its own error objects instead of the process-wide ones of DefaultConfig.errors_map
    (reference applications use this, so that nothing they do can reach the application under test through a shared object)."""
    import ombott
    cfg = {'max_body_size': 600, 'max_memfile_size': 160}
    if private_errors:
        cfg['errors_map'] = {k: ombott.HTTPError(code, body) for k, code, body in _default_errors()}
    cfg.update(config or {})
    if app is None:
        app = ombott.Ombott(cfg)
    else:
        app.setup(cfg)          # an existing application (the module-level default app) gets the same configuration
    rq, rs = app.request, app.response
    # foreign: dict with an optional callable under 'act', run in the middle of the /foreign handler (C10: nested calls, copy(), construction)
    foreign = foreign if foreign is not None else {}

    @app.route('/foreign', overwrite=True)
    def foreign_handler():
        q = rq.query.get('q', '')
        rs.headers['X-Before'] = 'b' + q
        rs.set_cookie('fc', 'f' + q)
        p('foreign:before')
        act = foreign.get('act')
        if act:
            act(app)
        p('foreign:after')
        rs.headers['X-After'] = 'a' + rq.query.get('q', '')
        return 'foreign %s %s %s' % (q, rq.path, rq.get_cookie('seen', 'none'))

    def p(where):
        if probe is not None:
            probe(app, where)
    mirror_blog = bool(cfg.get('domain_map'))

    @app.route('/ok', overwrite=True)
    def ok():
        p('ok:start')
        q = rq.query.get('q', '')
        rs.set_cookie('sid', 's' + q)
        rs.headers['X-Req'] = q
        if q and q[-1] in '13579':
            rs.status = 201
        c = rq.get_cookie('seen', 'none')
        p('ok:end')
        return 'ok %s %s %s' % (q, c, rq.headers.get('X-In', '-'))

    @app.route('/only', method='POST', overwrite=True)
    def only():
        return 'posted'

    @app.route('/body', method='POST', overwrite=True)
    def body():
        p('body:start')
        n = len(rq.body.read())
        p('body:end')
        return 'len %d' % n

    @app.route('/form', method='POST', overwrite=True)
    def form():
        p('form:start')
        f = rq.forms
        out = 'form ' + ','.join('%s=%s' % (k, f[k]) for k in sorted(f))
        p('form:end')
        return out

    @app.route('/static/<name>', overwrite=True)
    def static(name):
        # files served from a directory of the harness (fixed content and modification time)
        return ombott.static_file(name, root=static_dir(), download=bool(rq.query.get('dl')))

    @app.route('/hdrtypes', overwrite=True)
    def hdrtypes():
        # header values of several types that compare equal across types (True == 1 == 1.0, False == 0 == 0.0 == -0.0)
        n = int(rq.query.get('n', '0'))
        rs.headers['X-Flag'] = [True, 1, 1.0, 0, False, 0.0, -0.0, '1', 2, 2.0][n % 10]
        rs.headers['X-Other'] = [1.0, True, 1, False, 0.0, 0, 0, 1, 2.0, 2][n % 10]
        return 'x' * (1 + n % 2)

    @app.route('/notmod2', overwrite=True)
    def notmod2():
        # a 304 that carries Last-Modified but no ETag (what static_file answers)
        rs.status = 304
        rs.headers['Last-Modified'] = 'lm2-' + rq.query.get('q', '')
        return ''

    @app.route('/latin', overwrite=True)
    def latin():
        # text streamed in a charset of the handler's choosing (the later chunks do not look at the request any more)
        n = int(rq.query.get('n', '0'))
        rs.content_type = 'text/plain; charset=%s' % ['latin1', 'utf-16-le', 'cp1252', 'utf-8'][n % 4]
        words = ['caf\xe9 %d' % n, ' na\xefve', ' \xfcber', ' end']
        return (w for w in words)

    @app.route('/reason', overwrite=True)
    def reason():
        # a status code that has no standard reason phrase: as text with a phrase of this request's own, or as a bare number
        how, n, code = rq.query.get('how'), rq.query.get('n', '0'), int(rq.query.get('code', '299'))
        rs.headers['X-Reason'] = 'r' + n
        if how == 'text':
            rs.status = '%d Reason of %s' % (code, n)
        elif how == 'int':
            rs.status = code
        elif how == 'raise_text':
            raise ombott.HTTPResponse('reason raised ' + n, '%d Raised reason %s' % (code, n))
        elif how == 'abort_int':
            ombott.abort(code, 'reason abort ' + n)
        p('reason:end')
        return 'reason %s %s' % (how, n)

    @app.route('/bom', overwrite=True)
    def bom():
        # text streamed in pieces in a charset that starts a text with a byte order mark (its encoder keeps state from piece to piece)
        n = int(rq.query.get('n', '0'))
        rs.content_type = 'text/plain; charset=%s' % rq.query.get('cs', 'utf-16')
        words = ['bom %d' % n, ' caf\xe9', ' €%d' % n, ' end']

        def g():
            for w in words:
                p('bom:piece')
                yield w
        return g()

    @app.route('/upload', method='POST', overwrite=True)
    def upload():
        # shows what the upload itself says about its part: content type and the part's own headers
        up = rq.files.get('f')
        if up is None:
            return 'upload none'
        hs = getattr(up, 'headers', None)
        return 'upload %s %s %s %s' % (up.raw_filename, up.content_type, sorted((k, str(v)) for k, v in (dict(hs).items() if hs else [])), up.file.read())

    @app.route('/json', method='POST', overwrite=True)
    def js():
        return 'json %r' % (rq.json,)

    @app.route('/crash', overwrite=True)
    def crash():
        rs.headers['X-Before-Crash'] = rq.query.get('q', '')
        rs.set_cookie('crashcookie', 'c')
        raise RuntimeError('crash ' + rq.query.get('q', ''))

    @app.route('/raised', overwrite=True)
    def raised():
        q = rq.query.get('q', '')
        r = ombott.HTTPResponse('raised ' + q, 202, X_Raised=q)
        r.set_cookie('rc', 'r' + q)
        raise r

    @app.route('/gen', overwrite=True)
    def gen():
        q = rq.query.get('q', '')
        rs.headers['X-Gen'] = q

        def g():
            yield 'gen '
            p('gen:inside')
            yield q
            yield ' ' + rq.query.get('q', '')
        return g()

    @app.route('/rx/<kind.rex((a\\d+)|(b\\d+))[1]>/x', overwrite=True)
    def rex(kind):
        p('rex:start')
        rs.headers['X-Kind'] = kind
        return 'rex %s %s' % (kind, rq.path)

    @app.route('/t/<i:int>/<f:float>/<rest:path>', overwrite=True)
    def typed(i, f, rest):
        return 'typed %r %r %r' % (i, f, rest)

    @app.route('/expires', overwrite=True)
    def expires():
        n = int(rq.query.get('n', '0'))
        rs.expires = 1000000000 + n * 1000
        rs.set_cookie('e', 'v%d' % n, expires=1100000000 + n * 777, max_age=n + 1, path='/p%d' % n)
        rs.headers['Last-Modified'] = 'n%d' % n
        return 'expires %d %s' % (n, rs.headers['Expires'])

    @app.route('/status', overwrite=True)
    def status():
        how = rq.query.get('how')
        n = rq.query.get('n', '0')
        if how == 'str':
            rs.status = '499 Custom phrase %s' % n
        else:
            rs.status = 499
        return 'status %s' % rs.status_line

    @app.route('/signed', overwrite=True)
    def signed():
        n = rq.query.get('n', '0')
        secret = 'secret-%s' % (int(n) % 3)
        got = rq.get_cookie('tok', 'absent', secret=secret)
        rs.set_cookie('tok', ['data', n], secret=secret)
        return 'signed %r' % (got,)

    @app.route('/info/<x>', overwrite=True)
    def info(x):
        return 'info %s | %s | %s | %s | %s | %s' % (rq.url, rq.fullpath, rq.script_name, rq.remote_addr, rq.is_xhr, rq.content_type)

    @app.route('/auth', overwrite=True)
    def auth():
        return 'auth %r %r' % (rq.auth, rq.remote_route)

    @app.route('/hcase', overwrite=True)
    def hcase():
        # one header touched under two letter-case spellings (names are case-sensitive keys in this framework)
        q = rq.query.get('q', '')
        rs.headers['X-Trace'] = 'step-1-' + q
        p('hcase:mid')
        rs.headers['x-trace'] = 'step-2-' + q
        rs.headers.append('Cache-Control', 'no-cache')
        rs.headers.append('cache-control', 'private, q' + q)
        return 'hcase ' + q

    @app.route('/inject', overwrite=True)
    def inject(**kw):
        # code that adds an entry to the URL arguments of its own request (a wildcard-free route)
        q = rq.query.get('q', '')
        rq.url_args['injected'] = q
        return 'inject %r %r' % (sorted(rq.url_args.items()), sorted(kw.items()))

    @app.route('/notmod', overwrite=True)
    def notmod():
        q = rq.query.get('q', '')
        rs.status = 304 if rq.query.get('code') != '204' else 204
        rs.headers['Content-Language'] = 'en-' + q
        rs.headers['Last-Modified'] = 'lm-' + q
        rs.headers['Content-Type'] = 'text/x-' + q
        rs.headers['Etag'] = 'e' + q
        p('notmod:end')
        return ''

    @app.route('/rcopy', overwrite=True)
    def rcopy():
        q = rq.query.get('q', '')
        rs.status = 201
        rs.headers['X-Mine'] = q
        rs.set_cookie('mine', 'm' + q)
        p('rcopy:before')
        try:
            c = rs.copy()                     # a copy of the response being assembled (what this returns, or whether it raises, is the same alone and in company)
            info = '%s %s' % (type(c).__name__, c.status)
        except Exception as e:
            info = 'copy failed: ' + type(e).__name__
        p('rcopy:after')
        return 'rcopy %s %s' % (q, info)

    @app.route('/sess', overwrite=True)
    def sess():
        # a session stored in a signed cookie; the handler updates the decoded session in place (and does not send it back)
        d = rq.get_cookie('sess', secret='sess-secret')
        if not isinstance(d, dict):
            return 'sess none'
        d['visits'] = d.get('visits', 0) + 1
        d.setdefault('seen', []).append(rq.query.get('q', ''))
        return 'sess visits=%d seen=%d' % (d['visits'], len(d['seen']))

    @app.route('/reassign', overwrite=True)
    def reassign():
        # a handler that corrects request data through the request object after having looked at it (cached views must follow, for THIS request)
        q1 = rq.query.get('q', '')
        c1 = rq.get_cookie('seen', 'none')
        rq['QUERY_STRING'] = 'q=' + q1 + 'y'
        p('reassign:mid')
        rq['HTTP_COOKIE'] = 'seen=re' + q1
        q2 = rq.query.get('q', '')
        c2 = rq.get_cookie('seen', 'none')
        return 'reassign %s->%s %s->%s' % (q1, q2, c1, c2)

    @app.route('/doc/<id:int>/rev/<rev:int>', name='rev', overwrite=True)
    def doc_rev(id, rev):
        return 'doc %d rev %d' % (id, rev)

    @app.route('/see/<n:int>', overwrite=True)
    def see(n):
        # reverse routing inside a handler (on a fresh application the first use of url() for that route)
        p('see:start')
        return 'see /%s and /%s' % (app.router['rev'].url(id=n, rev=n + 1), app.router[{'/t/<i:int>/<f:float>/<rest:path>'}].url(i=n, f=n + 0.5, rest='a/b'))

    @app.route('/hdrs', overwrite=True)
    def hdrs():
        # a handler that looks many header names up (more distinct names than any small memo holds), all different from request to request
        q = rq.query.get('q', '')
        tag = rq.headers.get('X-Tag', 'none')
        found = sum(1 for i in range(150) if rq.headers.get('X-H-%s-%d' % (q, i)) is not None)
        return 'hdrs %s %s %d' % (q, tag, found)

    prepared = ombott.HTTPError(409, 'can\'t <merge> & "retry" later')          # one error object prepared once and answered on every call

    @app.route('/prepared', overwrite=True)
    def prepared_error():
        # (returned, not raised: an exception object that is raised again and again collects tracebacks by itself - Python semantics, the application's own leak)
        return prepared

    @app.route('/oneshot', overwrite=True)
    def oneshot():
        # two run-once after_request callbacks for THIS request (they unregister themselves when they run)
        q = rq.query.get('q', '')

        def mk(i):
            def cb():
                rs.headers['X-Audit-%d' % i] = 'audit %s' % q
                app.remove_hook('after_request', cb)
            return cb
        for i in (1, 2, 3):
            app.add_hook('after_request', mk(i))
        return 'oneshot ' + q

    @app.route('/api/item/<x>', overwrite=True)
    def api_item(x):
        return 'api item %s' % x

    # route hooks: an on_route hook on a non-root rule, and a per-prefix 404 handler
    def info_hook(route):
        rs.headers['X-Info-Hook'] = 'hook %s %s' % (route, rq.query.get('q', ''))
    app.on_route('/info', info_hook)

    def api_404(route, params):
        rs.status = 404
        rs.headers['X-Api'] = 'api-404'
        return 'api 404 %s %s' % (route, rq.path)
    app.error(404, rule='/api')(api_404)

    @app.route('/anyverb', method='ANY', overwrite=True)
    def anyverb():
        return 'anyverb %s %s' % (rq.method, rq.query.get('q', ''))

    @app.route('/rawbody', method='POST', overwrite=True)
    def rawbody():
        # everything request.body holds, read to EOF (not bounded by the declared length): length, digest, both ends
        import hashlib
        data = rq.body.read()
        return 'rawbody %d %s %r %r' % (len(data), hashlib.sha1(data).hexdigest(), data[:12], data[-12:])

    @app.route('/abort', overwrite=True)
    def ab():
        rs.set_cookie('pre', 'abort' + rq.query.get('q', ''))
        rs.headers['X-Pre'] = 'set-before-abort'
        ombott.abort(403, 'no ' + rq.query.get('q', ''))
    if mirror_blog:
        # the virtual host serves the same routes below /blog
        for route in list(app.router.routes.values()):
            if route.rule.startswith('/blog'):
                continue
            for m, rm in route.methods.items():
                app.route('/blog' + route.rule, method=m, callback=rm.handler, overwrite=True)
    return app


def make_env(kind, n, stream_cls=Stream):
    q = 'q=%d%s' % (n, 'x' * (n % 7))
    if kind == 'ok':
        return _e('GET', '/ok', q, headers={'Cookie': 'seen=v%d' % n, 'X-In': 'in%d' % n})
    if kind == 'foreign':
        return _e('GET', '/foreign', q, headers={'Cookie': 'seen=f%d' % n})
    if kind == 'head_ok':
        return _e('HEAD', '/ok', q)
    if kind == 'ok_json_accept':
        return _e('GET', '/ok', q, headers={'Accept': 'application/json'})
    if kind == 'notfound':
        return _e('GET', '/missing/%d' % n, q)
    if kind == 'notfound_json':
        return _e('GET', '/missing/%d' % n, q, headers={'Accept': 'application/json'})
    if kind == 'wrongverb':
        return _e('GET', '/only', q)
    if kind == 'badpath':
        return _e('GET', '/', q, raw_path='/\xff%d' % n)
    if kind == 'badchunk':
        return _e('POST', '/body', q, stream=stream_cls(b'5\r\nabc'), content_length=None, headers={'Transfer-Encoding': 'chunked', 'Accept': 'application/json' if n % 2 else 'text/html'})
    if kind == 'oversized':
        data = b'z' * (601 + n % 5)
        return _e('POST', '/body', q, stream=stream_cls(data), content_length=len(data), headers={'Accept': 'application/json' if n % 2 else 'text/html'})
    if kind == 'badmultipart':
        b = ('bnd%d' % n)
        data = ('--%s\r\nContent-Disposition: form-data; name="a"\r\n\r\nvalue without closing delimiter %d' % (b, n)).encode()
        return _e('POST', '/form', q, stream=stream_cls(data), content_length=len(data), headers={'Content-Type': 'multipart/form-data; boundary=' + b})
    if kind == 'form':
        b = ('B%dnd' % n)
        data, _ = encode_multipart(b, [{'name': 'a', 'value': b'v%d' % n}, {'name': 'b', 'value': b'w'}], b'', b'\r\n')
        return _e('POST', '/form', q, stream=stream_cls(data), content_length=len(data), headers={'Content-Type': 'multipart/form-data; boundary=' + b})
    if kind == 'bigform':
        # text fields beyond the in-memory budget: refused (413) by the form reader, not by the body reader
        b = ('G%dg' % n)
        data, _ = encode_multipart(b, [{'name': 'a', 'value': b'v' * (120 + n % 9)}, {'name': 'b', 'value': b'w' * 90}], b'', b'\r\n')
        return _e('POST', '/form', q, stream=stream_cls(data), content_length=len(data), headers={'Content-Type': 'multipart/form-data; boundary=' + b})
    if kind == 'badjson':
        data = b'{' + b' ' * (n % 11) + b'"a": %d' % n          # the position reported by the JSON error differs from request to request
        return _e('POST', '/json', q, stream=stream_cls(data), content_length=len(data), headers={'Content-Type': 'application/json', 'Accept': 'application/json' if n % 2 else '*/*'})
    if kind == 'crash':
        return _e('GET', '/crash', q)
    if kind == 'chunked_ok':
        from .encoders import encode_chunked
        payload = (b'payload-%d-' % n) * (2 + n % 3)
        wire, _ = encode_chunked(payload, [11 + n % 5, 17, 300], [{'upper': bool(n % 2), 'zeros': n % 3}], ['x=%d' % n, None], trailers=['X-T: %d' % n])
        return _e('POST', '/body', q, stream=stream_cls(wire), content_length=None, headers={'Transfer-Encoding': 'chunked'})
    if kind == 'resp_copy':
        return _e('GET', '/rcopy', q)
    if kind == 'urlbuild':
        return _e('GET', '/see/%d' % n, q)
    if kind == 'manyheaders':
        return _e('GET', '/hdrs', q, headers=dict({'X-Tag': 't%d' % n, 'X-In': 'in%d' % n}, **{'X-H-%s-%d' % (q[2:], i): 'v' for i in range(0, 150, 7)}))
    if kind == 'oneshot':
        return _e('GET', '/oneshot', q)
    if kind == 'prepared_error':
        return _e('GET', '/prepared', q, headers={'Accept': 'application/json' if n % 3 == 0 else 'text/html'})
    if kind == 'emptyform':
        # a multipart request that declares a boundary but carries no body at all
        return _e('POST', '/form', q, stream=stream_cls(b''), content_length=0, headers={'Content-Type': 'multipart/form-data; boundary=E%dmpty' % n})
    if kind == 'emptybody':
        return _e('POST', '/body', q, stream=stream_cls(b''), content_length=0)
    if kind == 'upload_headers':
        b = 'U%dp' % n
        parts = [{'name': 'f', 'filename': 'a%d.bin' % n, 'value': b'data %d' % n, 'ctype': ('text/x-n%d' % n) if n % 2 else None,
                  'extra_headers': [('X-Upload-Token', 'token-%d' % n)] if n % 3 == 0 else None}, {'name': 't', 'value': b'text'}]
        data, _ = encode_multipart(b, parts, b'', b'\r\n')
        return _e('POST', '/upload', q, stream=stream_cls(data), content_length=len(data), headers={'Content-Type': 'multipart/form-data; boundary=' + b})
    if kind == 'static_plain':
        return _e('GET', '/static/' + ['doc.txt', 'arch.tgz', 'empty.txt', 'missing.txt'][n % 4], q)
    if kind == 'static_range':
        return _e('GET', '/static/' + ['doc.txt', 'arch.tgz'][n % 2], q, headers={'Range': 'bytes=%d-%d' % (n % 5, 5 + n % 7)})
    if kind == 'static_ims':
        return _e('GET' if n % 2 else 'HEAD', '/static/doc.txt', q, headers={'If-Modified-Since': 'Sun, 09 Sep 2001 01:46:40 GMT' if n % 3 else 'Sat, 08 Sep 2001 01:46:40 GMT'})
    if kind == 'static_dl':
        return _e('GET', '/static/doc.txt', q + '&dl=1')
    if kind == 'hdr_types':
        return _e('GET', '/hdrtypes', 'n=%d' % n)
    if kind == 'notmod_noetag':
        return _e('GET', '/notmod2', q)
    if kind == 'badstart':
        b = 'S%dt' % n
        data = ('junk before the first delimiter %d\r\n--%s\r\nContent-Disposition: form-data; name="a"\r\n\r\nv\r\n--%s--\r\n' % (n, b, b)).encode()
        return _e('POST', '/form', q, stream=stream_cls(data), content_length=len(data), headers={'Content-Type': 'multipart/form-data; boundary=' + b})
    if kind == 'latin_gen':
        return _e('GET', '/latin', 'n=%d' % n)
    if kind in ('reason_text', 'reason_int', 'reason_raise_text', 'reason_abort_int'):
        # requests 0-7 share one code, 8-15 the next, ... (none of them has a standard phrase)
        return _e('GET', '/reason', 'how=%s&n=%d&code=%d' % (kind[7:], n, 296 + n // 8))
    if kind in ('bom16_gen', 'bom32_gen', 'bomsig_gen'):
        return _e('GET', '/bom', 'n=%d&cs=%s' % (n, {'bom16_gen': 'utf-16', 'bom32_gen': 'utf-32', 'bomsig_gen': 'utf-8-sig'}[kind]))
    if kind == 'qs_reassign':
        return _e('GET', '/reassign', q, headers={'Cookie': 'seen=v%d' % n})
    if kind == 'api_404':
        return _e('GET', '/api/missing/%d' % n, q)
    if kind == 'api_item':
        return _e('GET', '/api/item/i%d' % n, q)
    if kind == 'neg_cl':
        # a negative declared length, different for every request
        return _e('POST', '/body', q, stream=stream_cls(b'ignored %d' % n), content_length=-(2 + n))
    if kind == 'form_fixed':
        # every request of this kind uses the SAME boundary string (only the values differ)
        data, _ = encode_multipart('fixed-boundary-7d1', [{'name': 'a', 'value': b'v%d' % n}, {'name': 'b', 'value': b'w' * (n % 5)}], b'', b'\r\n')
        return _e('POST', '/form', q, stream=stream_cls(data), content_length=len(data), headers={'Content-Type': 'multipart/form-data; boundary=fixed-boundary-7d1'})
    if kind == 'sess_mutate':
        import base64, hashlib, hmac, pickle
        msg = base64.b64encode(pickle.dumps(('sess', {'visits': 1, 'user': 'u'}), -1))          # the byte-identical cookie whatever n is
        sig = base64.b64encode(hmac.new(b'sess-secret', msg, digestmod=hashlib.md5).digest())
        return _e('GET', '/sess', q, headers={'Cookie': 'sess="!%s?%s"' % (sig.decode(), msg.decode())})
    if kind == 'header_case':
        return _e('GET', '/hcase', q)
    if kind == 'inject_arg':
        return _e('GET', '/inject', q)
    if kind == 'notmodified':
        return _e('GET', '/notmod', q)
    if kind == 'nocontent':
        return _e('GET', '/notmod', q + '&code=204')
    if kind == 'blog_direct':
        return _e('GET', '/blog/info/x%d' % n, q)
    if kind == 'dm_info':
        return _e('GET', '/info/x%d' % n, q, headers={'Host': 'blog.example'})
    if kind == 'rex':
        return _e('GET', '/rx/a%d/x' % n, q)
    if kind == 'typed':
        return _e('GET', '/t/%d/%d.5/some/path/%d' % (n - 3, n, n), q)
    if kind == 'expires':
        return _e('GET', '/expires', 'n=%d' % n)
    if kind == 'longpath':
        return _e('GET', '/missing/' + 'p' * (4000 + 97 * (n % 13)) + str(n), q)
    if kind == 'hugepath':
        return _e('GET', '/missing/' + 'p' * (8200 + 1000 * (n % 9)) + str(n), q, headers={'Cookie': 'seen=h%d' % n})
    if kind == 'longquery':
        return _e('GET', '/ok', q + '&pad=' + 'q' * (3000 + 500 * (n % 7)))
    if kind == 'status_str':
        return _e('GET', '/status', 'how=str&n=%d' % n)
    if kind == 'status_int':
        return _e('GET', '/status', 'how=int&n=%d' % n)
    if kind == 'signed':
        import base64, hashlib, hmac, pickle
        secret = 'secret-%d' % ((n + 1) % 3)           # a cookie signed with one of the three secrets in use (often not the one the handler expects)
        msg = base64.b64encode(pickle.dumps(('tok', ['client', n]), -1))
        sig = base64.b64encode(hmac.new(secret.encode(), msg, digestmod=hashlib.md5).digest())
        return _e('GET', '/signed', 'n=%d' % n, headers={'Cookie': 'tok="!%s?%s"' % (sig.decode(), msg.decode())})
    if kind == 'urlinfo':
        return _e('GET', '/info/x%d' % n, q, headers={'X-Forwarded-Host': 'fh%d.example' % n, 'X-Forwarded-For': '10.0.0.%d, 10.1.1.1' % (n % 250), 'X-Requested-With': 'XMLHttpRequest'})
    if kind == 'auth':
        import base64
        return _e('GET', '/auth', q, headers={'Authorization': 'Basic ' + base64.b64encode(('user%d:pw%d' % (n, n)).encode()).decode(), 'X-Forwarded-For': '10.9.8.%d' % (n % 250)})
    if kind == 'verb_on_get_route':
        # routes registered for GET only: HEAD falls back to GET, every other verb is refused (405 with the list of allowed verbs)
        return _e(['POST', 'HEAD', 'DELETE', 'HEAD', 'PUT', 'OPTIONS', 'PATCH'][n % 7], ['/ok', '/gen', '/hcase'][(n // 7) % 3], q)
    if kind == 'verb_on_any_route':
        # a route registered for ANY: standard and made-up verbs, a different one for (nearly) every n
        return _e(['GET', 'HEAD', 'VERB%d' % n, 'POST', 'X%dY' % n][n % 5], '/anyverb', q)
    if kind == 'spilled_body':
        # a body beyond max_memfile_size (160) and below max_body_size (600): spilled to a file; sizes go down as n goes up (within a decade), content differs
        data = ((b'<%d>' % n) * 200)[:590 - 43 * (n % 10)]
        if n % 4 == 0:
            from .encoders import encode_chunked
            wire, _ = encode_chunked(data, [150, 97, 300])
            return _e('POST', '/rawbody', q, stream=stream_cls(wire), content_length=None, headers={'Transfer-Encoding': 'chunked'})
        return _e('POST', '/rawbody', q, stream=stream_cls(data), content_length=len(data))
    if kind == 'raised':
        return _e('GET', '/raised', q)
    if kind == 'gen':
        return _e('GET', '/gen', q)
    if kind == 'cookie_then_abort':
        return _e('GET', '/abort', q)
    raise AssertionError(kind)


def _e(method, path, qs, **kw):
    return Env(make_environ(method, path, qs=qs, **kw))
