"""Reference responses computed in FRESH interpreter processes (one request per process): nothing an earlier request did to
process-wide state (module-level tables, class-level caches, shared default objects) can reach a reference."""
import multiprocessing
import os
import sys


def _one(args):
    kind, n, cfg, debug = args
    from vlib import site as S
    from vlib.wsgi import call_app
    config = {'debug': bool(debug)}
    if cfg == 'custom':
        config['errors_map'] = S.custom_errors()
        app = S.make_app(config=config)
    elif cfg == 'domain':
        config.update(S.domain_config())
        app = S.make_app(config=config, private_errors=True)
    else:
        app = S.make_app(config=config, private_errors=True)
    r = call_app(app, S.make_env(kind, n))
    if r.escaped is not None:
        return (kind, n, cfg, debug), ('escaped', repr(r.escaped), b'')
    return (kind, n, cfg, debug), (r.status, sorted(r.headers or []), r.body)


def references(keys, procs=8):
    """keys: iterable of (kind, n, cfg, debug) -> {key: (status, sorted headers, body)}; every key in its own process."""
    keys = sorted(set(keys))
    if not keys:
        return {}
    ctx = multiprocessing.get_context('spawn')
    with ctx.Pool(min(procs, len(keys)), maxtasksperchild=1) as pool:
        return dict(pool.imap_unordered(_one, keys, chunksize=1))
