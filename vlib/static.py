"""Driving ombott.static_file the way an application does: from a handler of the default application
(static_file reads ombott.Globals.request), one WSGI request per case."""
import sys

from .wsgi import make_environ, call_app

_BOX = {}
_REG = []
_OPENS = []
_AUDIT = {'on': False, 'installed': False}


def _handler():
    import ombott
    kw = _BOX.get('kw') or {}
    return ombott.static_file(_BOX['name'], _BOX['root'], **kw)


def serve_static(name, root, method='GET', headers=None, environ_extra=None, **kw):
    import ombott
    app = ombott.app
    if not _REG:
        app.route('/__verif_static', method=['GET', 'HEAD', 'POST'], callback=_handler, overwrite=True)
        _REG.append(1)
    _BOX.update(name=name, root=root, kw=kw)
    env = make_environ(method, '/__verif_static', headers=headers or {}, extra=environ_extra or {})
    return call_app(app, env)


def _hook(event, args):
    if _AUDIT['on'] and event == 'open':
        _OPENS.append(args[0])


class record_opens:
    """Context manager: every path handed to open()/io.open()/os.open() (audit event 'open') while active."""

    def __enter__(self):
        if not _AUDIT['installed']:
            sys.addaudithook(_hook)
            _AUDIT['installed'] = True
        del _OPENS[:]
        _AUDIT['on'] = True
        return _OPENS

    def __exit__(self, *a):
        _AUDIT['on'] = False
