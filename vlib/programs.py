"""Handler-program DSL (C03, C09): handler behaviour as plain data, interpreted by one function, so programs shrink,
serialise into replay files and are pure functions of the request."""
import io

from hypothesis import strategies as st

STATUSES = [100, 101, 102, 103, 199, 200, 200, 200, 201, 204, 205, '299 Custom', 304, 404, 418, 500, 999,
            # string statuses: valid with surrounding blanks, and malformed ones (first token is not exactly a three-digit code) which must end as a well-formed 500
            ' 201 Created ', '204 No Content', '1000 Too Big', '2040 No Content', '200OK Fine', '404.5 x', 'abc def', '0200 OK', '+200 OK', '99 Low', '\uff12\uff10\uff10 OK', '20 0']
_VALID_STR_STATUS = __import__('re').compile(r'^\s*[1-9][0-9]{2}\s+\S')
ITEM = st.one_of(st.sampled_from(['a', 'bc', '', 'é', 'x' * 40, '0']), st.text(max_size=6))


EXC_TYPES = ['RuntimeError', 'ValueError', 'KeyError', 'TypeError', 'AttributeError', 'UnicodeDecodeError', 'UnicodeEncodeError', 'UnicodeError', 'OSError', 'LookupError',
             'AssertionError', 'ZeroDivisionError', 'StopIteration', 'RecursionError', 'NotImplementedError', 'PermissionError', 'Custom']


def make_exc(name):
    if name == 'UnicodeDecodeError':
        try:
            b'\xff'.decode('utf8')
        except UnicodeDecodeError as e:
            return e
    if name == 'UnicodeEncodeError':
        try:
            'é'.encode('ascii')
        except UnicodeEncodeError as e:
            return e
    if name == 'Custom':
        class HandlerProblem(Exception):
            pass
        return HandlerProblem('handler failed')
    import builtins
    return getattr(builtins, name or 'RuntimeError')('handler failed')


def items_st():
    return st.tuples(st.sampled_from(['str', 'str', 'bytes', 'bytes', 'bytearray', 'memoryview']), st.lists(ITEM, max_size=4), st.integers(0, 2)).map(
        lambda t: {'type': t[0], 'items': [''] * t[2] + t[1]})


def _enc(kind, s, idx=0):
    """bytes-like item types other than bytes are not among the supported return types: whatever the framework makes of them, the answer
    must be one well-formed response whose chunks are bytes"""
    if kind == 'str':
        return s
    b = s.encode('utf8')
    if kind == 'bytearray' or (kind == 'mixed_bytes_like' and idx % 2 == 1):
        return bytearray(b)
    if kind == 'memoryview' or (kind == 'mixed_bytes_like' and idx % 3 == 2):
        return memoryview(b)
    return b


@st.composite
def outcome_st(draw, depth=0):
    kinds = ['str', 'str', 'bytes', 'empty', 'none', 'list', 'gen', 'gen', 'iterobj', 'iterobj', 'file', 'exc']
    if depth < 3:
        kinds += ['resp', 'resp', 'resp']
    k = draw(st.sampled_from(kinds))
    if k in ('str', 'bytes'):
        return {'k': k, 'v': draw(ITEM)}
    if k == 'exc':
        return {'k': k, 'exc': draw(st.sampled_from(EXC_TYPES))}
    if k in ('empty', 'none'):
        return {'k': k}
    if k == 'list':
        return dict(draw(items_st()), k='list')
    if k == 'gen':
        return dict(draw(items_st()), k='gen', raise_at=draw(st.sampled_from([None, None, None, 0])))
    if k == 'iterobj':
        return dict(draw(items_st()), k='iterobj', has_close=draw(st.booleans()), raise_at=draw(st.sampled_from([None, None, None, 0])),
                    close_raises=draw(st.integers(0, 5)) == 0)
    if k == 'file':
        return {'k': 'file', 'data': draw(st.sampled_from(['', 'file content', 'z' * 100])), 'has_close': draw(st.booleans()), 'has_iter': draw(st.booleans()),
                'seekable': draw(st.booleans()), 'pos': draw(st.sampled_from([0, 0, 1, 5, 12, 100])), 'close_raises': draw(st.integers(0, 5)) == 0}
    body = draw(outcome_st(depth + 1).filter(lambda o: o['k'] != 'exc'))
    return {'k': 'resp', 'cls': draw(st.sampled_from(['HTTPResponse', 'HTTPResponse', 'HTTPError'])), 'status': draw(st.sampled_from([None] + STATUSES)),
            'body': body, 'how': draw(st.sampled_from(['return', 'raise', 'yield'])),
            'headers': draw(st.lists(st.tuples(st.sampled_from(['X-A', 'X-B', 'Content-Language']), st.sampled_from(['v', 'é', '1'])), max_size=2)),
            'shared': draw(st.integers(0, 5)) == 0}


# ------------------------------------------------------------------ tracked objects
class Track:
    def __init__(self):
        self.objs = []


class _IterBase:
    def __init__(self, tr, spec):
        self.items = [_enc(spec['type'], s, j) for j, s in enumerate(spec['items'])]
        self.raise_at = spec.get('raise_at')
        self.close_raises = bool(spec.get('close_raises'))
        self.closes = 0
        self.started = 0
        self.produced = False
        tr.objs.append(self)

    def __iter__(self):
        return self._run()         # a separate iterator object

    def _run(self):
        self.started += 1
        if self.raise_at == 0:
            raise RuntimeError('iterable failed at first next()')
        for it in self.items:
            if it:
                self.produced = True
            yield it


CLOSE_FAILED = 'close() of the handler iterable failed (harness)'


class ClosableIter(_IterBase):
    def close(self):
        self.closes += 1
        if self.close_raises:
            raise RuntimeError(CLOSE_FAILED)


class PlainIter(_IterBase):
    pass


class _FileBase:
    def __init__(self, tr, spec):
        self._b = io.BytesIO(spec['data'].encode('utf8'))
        self.close_raises = bool(spec.get('close_raises'))
        self.closes = 0
        self.produced = False
        self.is_file = True
        tr.objs.append(self)

    def read(self, n=-1):
        d = self._b.read(n)
        if d:
            self.produced = True
        return d


class FileClose(_FileBase):
    def close(self):
        self.closes += 1
        if self.close_raises:
            raise RuntimeError(CLOSE_FAILED)


class FileCloseIter(FileClose):
    def __iter__(self):
        return iter(lambda: self.read(7), b'')


class FileNoClose(_FileBase):
    pass


class FileNoCloseIter(_FileBase):
    def __iter__(self):
        return iter(lambda: self.read(7), b'')


class SeekFile(io.BytesIO):
    """A real binary stream (seek / tell / fileno-less), possibly already read from when the handler returns it."""

    def __init__(self, tr, spec):
        super().__init__(spec['data'].encode('utf8'))
        self.closes = 0
        self.produced = False
        self.is_file = True
        tr.objs.append(self)
        self.seek(min(spec.get('pos', 0), len(spec['data'].encode('utf8'))))

    def read(self, n=-1):
        d = super().read(n)
        if d:
            self.produced = True
        return d

    def close(self):
        self.closes += 1
        super().close()


class ServerFileWrapper:
    """What a server passes as wsgi.file_wrapper: iterates blocks, closes the file on close()."""

    def __init__(self, fp, blksize=16):
        self.fp, self.blksize = fp, blksize

    def __iter__(self):
        return iter(lambda: self.fp.read(self.blksize), b'')

    def close(self):
        c = getattr(self.fp, 'close', None)
        if c:
            c()


def build(spec, tr, shared_store, reqno):
    """Turn an outcome spec into the Python object a handler would return / raise.
    Returns (how, obj): how in {'return', 'raise'}."""
    import ombott
    k = spec['k']
    if k in ('str', 'bytes'):
        return 'return', _enc(k, spec['v'])
    if k == 'empty':
        return 'return', ''
    if k == 'none':
        return 'return', None
    if k == 'exc':
        return 'raise', make_exc(spec.get('exc') or 'RuntimeError')
    if k == 'list':
        return 'return', [_enc(spec['type'], s, j) for j, s in enumerate(spec['items'])]
    if k == 'gen':
        items = [_enc(spec['type'], s, j) for j, s in enumerate(spec['items'])]
        ra = spec.get('raise_at')

        def g():
            if ra == 0:
                raise RuntimeError('generator failed at first next()')
            for it in items:
                yield it
        return 'return', g()
    if k == 'iterobj':
        return 'return', (ClosableIter if spec['has_close'] else PlainIter)(tr, spec)
    if k == 'file' and spec.get('seekable'):
        return 'return', SeekFile(tr, spec)
    if k == 'file':
        cls = {(True, True): FileCloseIter, (True, False): FileClose, (False, True): FileNoCloseIter, (False, False): FileNoClose}[(spec['has_close'], spec['has_iter'])]
        return 'return', cls(tr, spec)
    if k == 'resp':
        bh, body = build(spec['body'], tr, shared_store, reqno)
        # (a nested response marked 'raise' is simply carried as the body object: only the outermost one can be raised)
        cls = ombott.HTTPError if spec['cls'] == 'HTTPError' else ombott.HTTPResponse
        key = id(spec)
        if spec.get('shared') and key in shared_store:
            obj = shared_store[key]          # the same response object is used for every request (module-level error object idiom)
            obj.body = body
        else:
            if cls is ombott.HTTPError:
                obj = cls(spec['status'], body, **{})
            else:
                obj = cls(body, spec['status'])
            for hk, hv in spec['headers']:
                obj.headers.append(hk, hv)
            if spec.get('shared'):
                shared_store[key] = obj
        if spec['how'] == 'raise':
            return 'raise', obj
        if spec['how'] == 'yield':
            def g2():
                yield obj
                yield 'never reached'
            return 'return', g2()
        return 'return', obj
    raise AssertionError(spec)


def status_of(s, default):
    """-> the status code, or 'invalid' for a string whose first token is not exactly a three-digit code (assigning it must fail)"""
    if s is None:
        return default
    if isinstance(s, int):
        return s
    return int(s.split()[0]) if _VALID_STR_STATUS.match(s) and s.split()[0].isascii() else 'invalid'


def _nested_invalid(spec):
    return spec['k'] == 'resp' and (status_of(spec['status'], 200) == 'invalid' or _nested_invalid(spec['body']))


def has_failing_close(spec):
    return bool(spec.get('close_raises') and spec.get('has_close')) or (spec['k'] == 'resp' and has_failing_close(spec['body']))


def model_status(spec, status, handlers):
    """Expected final status code of an outcome evaluated on a response whose status is `status` (None = not predicted)."""
    k = spec['k']
    if k == 'exc' or (k in ('gen', 'iterobj') and spec.get('raise_at') == 0):
        return 500
    if k in ('list', 'gen', 'iterobj') and spec.get('type') not in ('str', 'bytes'):
        return None         # bytes-like items: unsupported type, the status is not predicted
    if k in ('str', 'bytes', 'empty', 'none', 'list', 'gen', 'iterobj', 'file'):
        return status
    if k == 'resp':
        st_ = status_of(spec['status'], 500 if spec['cls'] == 'HTTPError' else 200)
        if st_ == 'invalid' or _nested_invalid(spec['body']):
            return 500          # constructing the response (or one nested in it) fails inside the handler
        if spec['cls'] == 'HTTPError':
            h = handlers.get(str(st_))
            if h == 'raise':
                return 500
            return st_
        return model_status(spec['body'], st_, handlers)
    return None
