"""Deterministic thread scheduler: the harness owns the interleaving.

Worker threads run under a per-thread sys.settrace function; every `line` event (optionally every opcode) in the files selected by
`relevant(filename)` is a yield point.  Exactly one thread runs at a time (a baton of semaphores).  A schedule is plain data:
a list of [thread index, number of yield points to run]; when it is exhausted the remaining threads run to completion in index
order.  Schedules are therefore shrinkable and replayable; nothing depends on timing."""
import sys
import threading

BIG = 10 ** 9


class Scheduler:
    def __init__(self, fns, schedule, relevant, opcodes=False, on_switch=None, max_steps=2_000_000):
        self.fns = fns
        self.n = len(fns)
        self.schedule = [list(s) for s in schedule]
        self.si = 0
        self.relevant = relevant
        self.opcodes = opcodes
        self.on_switch = on_switch
        self.sems = [threading.Semaphore(0) for _ in fns]
        self.finished = [False] * self.n
        self.started = [False] * self.n
        self.errors = [None] * self.n
        self.results = [None] * self.n
        self.yields = [0] * self.n
        self.current = None
        self.remaining = 0
        self.switches = 0
        self.total = 0
        self.max_steps = max_steps
        self.done = threading.Event()
        self._cache = {}

    # -- choosing who runs next
    def _next_segment(self):
        while self.si < len(self.schedule):
            t, k = self.schedule[self.si]
            self.si += 1
            t = t % self.n
            if not self.finished[t] and k > 0:
                return t, k
        for t in range(self.n):
            if not self.finished[t]:
                return t, BIG
        return None, 0

    def _switch_from(self, me):
        """Called by the running thread `me` at a yield point (or at its end) when its quantum is used up."""
        t, k = self._next_segment()
        if t is None:
            self.done.set()
            return
        self.remaining = k
        if t == me and not self.finished[me]:
            return
        self.switches += 1
        if self.on_switch:
            self.on_switch(me, t)
        self.current = t
        self.sems[t].release()
        if not self.finished[me]:
            self.sems[me].acquire()

    # -- tracing
    def _rel(self, fn):
        r = self._cache.get(fn)
        if r is None:
            r = self._cache[fn] = bool(self.relevant(fn))
        return r

    def _make_tracer(self, me):
        sched = self

        def local(frame, event, arg):
            if event == 'line' or event == 'opcode':
                sched.yields[me] += 1
                sched.total += 1
                if sched.total > sched.max_steps:
                    raise RuntimeError('scheduler: step budget exhausted (livelock?)')
                sched.remaining -= 1
                if sched.remaining <= 0:
                    sched._switch_from(me)
            return local

        def glob(frame, event, arg):
            if event == 'call' and sched._rel(frame.f_code.co_filename):
                if sched.opcodes:
                    frame.f_trace_opcodes = True
                return local
            return None
        return glob

    def _worker(self, me):
        self.sems[me].acquire()
        self.started[me] = True
        tracer = self._make_tracer(me)
        sys.settrace(tracer)
        try:
            self.results[me] = self.fns[me]()
        except BaseException as e:  # noqa
            self.errors[me] = e
        finally:
            sys.settrace(None)
            self.finished[me] = True
            self._switch_from(me)

    def run(self, timeout=60):
        threads = [threading.Thread(target=self._worker, args=(i,), daemon=True) for i in range(self.n)]
        for th in threads:
            th.start()
        t, k = self._next_segment()
        self.current, self.remaining = t, k
        self.sems[t].release()
        if not self.done.wait(timeout):
            raise RuntimeError('scheduler: threads did not finish (deadlock in the harness or in the code under test)')
        for th in threads:
            th.join(timeout)
        return self.results
