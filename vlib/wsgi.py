"""WSGI driver, independent PEP 3333 validator, fragmenting/recording input stream."""
import io
import re

from .core import CheckFailure


class FragStream:
    """wsgi.input whose read(n) returns at most the next element of `pattern` bytes
    (pattern elements >= 1, cycled; None/empty pattern = full reads).  Records every request.
    `data` is everything the 'socket' can deliver; bytes past `limit` are sentinels that must
    never be handed out if the caller respects the declared length."""

    def __init__(self, data, pattern=None):
        self.data = bytes(data)
        self.pos = 0
        self.pattern = [max(1, int(p)) for p in (pattern or [])]
        self.pi = 0
        self.requests = []      # (n requested, position before, bytes returned)
        self.neg_reads = 0

    def read(self, n=-1):
        if n is None or n < 0:
            self.neg_reads += 1
            n = len(self.data) - self.pos
        k = n
        if self.pattern and n > 0:
            k = min(n, self.pattern[self.pi % len(self.pattern)])
            self.pi += 1
        out = self.data[self.pos:self.pos + k]
        self.requests.append((n, self.pos, len(out)))
        self.pos += len(out)
        return out

    def readline(self, n=-1):
        raise AssertionError('readline not expected')

    @property
    def consumed(self):
        return self.pos


def path_to_wsgi(path_text):
    """What a server puts into PATH_INFO: the UTF-8 bytes viewed as Latin-1."""
    if isinstance(path_text, bytes):
        return path_text.decode('latin1')
    return path_text.encode('utf8').decode('latin1')


def make_environ(method='GET', path='/', qs='', body=b'', headers=None, extra=None, stream=None,
                 content_length='auto', raw_path=None):
    errors = io.StringIO()
    env = {
        'REQUEST_METHOD': method,
        'PATH_INFO': raw_path if raw_path is not None else path_to_wsgi(path),
        'QUERY_STRING': qs,
        'SCRIPT_NAME': '',
        'SERVER_NAME': 'localhost', 'SERVER_PORT': '80', 'SERVER_PROTOCOL': 'HTTP/1.1',
        'wsgi.version': (1, 0), 'wsgi.url_scheme': 'http',
        'wsgi.input': stream if stream is not None else io.BytesIO(body),
        'wsgi.errors': errors,
        'wsgi.multithread': True, 'wsgi.multiprocess': False, 'wsgi.run_once': False,
    }
    if content_length == 'auto':
        if body or stream is None and method in ('POST', 'PUT', 'PATCH'):
            env['CONTENT_LENGTH'] = str(len(body))
    elif content_length is not None:
        env['CONTENT_LENGTH'] = str(content_length)
    for k, v in (headers or {}).items():
        ku = k.upper().replace('-', '_')
        if ku in ('CONTENT_TYPE', 'CONTENT_LENGTH'):
            env[ku] = v
        else:
            env['HTTP_' + ku] = v
    env.update(extra or {})
    return env


class Result:
    __slots__ = ('calls', 'chunks', 'body', 'errors', 'escaped', 'status', 'headers', 'code', 'closed', 'env', 'iter_type')

    def header(self, name, default=None):
        name = name.lower()
        for k, v in self.headers or ():
            if k.lower() == name:
                return v
        return default

    def header_all(self, name):
        name = name.lower()
        return [v for k, v in self.headers or () if k.lower() == name]

    def triple(self):
        return (self.status, sorted(self.headers or []), self.body)


def call_app(app, env):
    """Serve one request like a server would; nothing is judged here."""
    r = Result()
    r.calls = []
    r.chunks = []
    r.escaped = None
    r.closed = 0
    r.env = env
    r.iter_type = None
    body_started = [False]

    def start_response(status, headers, exc_info=None):
        r.calls.append({'status': status, 'headers': headers, 'exc_info': exc_info is not None,
                        'after_body': body_started[0]})
        return lambda b: None

    out = None
    try:
        out = app(env, start_response)
        r.iter_type = type(out).__name__
        for chunk in out:
            body_started[0] = True
            r.chunks.append(chunk)
    except (KeyboardInterrupt, SystemExit):
        raise
    except BaseException as e:  # noqa
        r.escaped = e
    finally:
        close = getattr(out, 'close', None)
        if close is not None:
            try:
                close()
                r.closed += 1
            except BaseException as e:  # noqa
                if r.escaped is None:
                    r.escaped = e
    last = r.calls[-1] if r.calls else None
    r.status = last['status'] if last else None
    r.headers = list(last['headers']) if last and isinstance(last['headers'], list) else (last['headers'] if last else None)
    try:
        r.code = int(r.status[:3]) if r.status else None
    except (ValueError, TypeError):
        r.code = None
    try:
        r.body = b''.join(r.chunks)
    except TypeError:
        r.body = None
    ev = env.get('wsgi.errors')
    r.errors = ev.getvalue() if hasattr(ev, 'getvalue') else ''
    return r


_STATUS_RE = re.compile(r'^\d{3} \S')


def validate(r, what=''):
    """Independent PEP 3333 validation of one recorded exchange; raises CheckFailure."""
    def bad(msg):
        raise CheckFailure(f'WSGI: {msg} {what}')

    if r.escaped is not None:
        bad(f'exception escaped the application: {type(r.escaped).__name__}: {r.escaped!r:.200}')
    if not r.calls:
        bad('start_response never called')
    plain = [c for c in r.calls if not c['exc_info']]
    if len(plain) > 1:
        bad(f'start_response called {len(plain)} times without exc_info')
    if len(r.calls) > 1 and not all(c['exc_info'] for c in r.calls[1:]):
        bad('second start_response without exc_info')
    if any(c['after_body'] for c in r.calls):
        bad('start_response after the first body chunk')
    st = r.status
    if type(st) is not str or not _STATUS_RE.match(st):
        bad(f'malformed status line {st!r}')
    if not 100 <= int(st[:3]) <= 999:
        bad(f'status code out of range {st!r}')
    if any(c in st for c in '\r\n\0'):
        bad(f'control character in status line {st!r}')
    try:
        st.encode('latin1')
    except UnicodeError:
        bad('status not latin-1')
    if type(r.headers) is not list:
        bad(f'headers is {type(r.headers).__name__}, not list')
    for h in r.headers:
        if type(h) is not tuple or len(h) != 2:
            bad(f'header item not a 2-tuple: {h!r}')
        k, v = h
        if type(k) is not str or type(v) is not str:
            bad(f'header not (str, str): {h!r}')
        if not k or not re.match(r"^[!#$%&'*+\-.^_`|~0-9A-Za-z]+$", k):
            bad(f'bad header name {k!r}')
        if '\r' in v or '\n' in v or '\0' in v:
            bad(f'control character in header value {k}: {v!r}')
        try:
            v.encode('latin1')
        except UnicodeError:
            bad(f'header value not latin-1 {k}: {v!r}')
    for c in r.chunks:
        if type(c) is not bytes:
            bad(f'body chunk is {type(c).__name__}, not bytes')


class Hang(BaseException):
    """Raised by the watchdog; a BaseException so that the framework's catch-all does not turn it into a 500 page."""


def call_app_watchdog(app, env, seconds=10):
    """call_app under a SIGALRM watchdog (main thread only). Returns the Result; r.escaped is a Hang instance if the request did not finish."""
    import signal

    def _alarm(signum, frame):
        signal.alarm(1)          # re-arm: an exception that lands in a gc callback / __del__ is swallowed, the next one follows
        raise Hang()
    old = signal.signal(signal.SIGALRM, _alarm)
    signal.alarm(seconds)
    try:
        try:
            return call_app(app, env)
        finally:
            signal.alarm(0)
            signal.signal(signal.SIGALRM, old)
    except Hang as h:
        r = Result()
        r.calls, r.chunks, r.escaped, r.closed, r.env, r.iter_type = [], [], h, 0, env, None
        r.status = r.headers = r.code = r.body = None
        r.errors = ''
        return r
