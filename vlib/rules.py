"""Rule ASTs, their rendering into every documented rule-syntax flavour, and an independent rule-by-rule
reference matcher (used by C01, C02, C11, C19).  Nothing here imports the repository's router.

AST:  rule = list of segments;  segment = ['lit', text] | ['w', name_or_None, filter_or_None, arg_or_None] | ['w', name, 'rex', regex, selector]
      filter in {None, 'int', 'float', 're', 'path', 'rex'};  arg = regular expression text for 're' / 'rex', None otherwise.
      rex (with a selector [n]): the expression is matched once at the cursor, the wildcard is bound to the first group that took part, and the
      rule continues only if that group's number is the selector (this is how one wildcard position branches by alternative).
The harness knows each rule's structure from the AST, never from the repository's parser.
"""
import functools
import re

from hypothesis import strategies as st

LIT_PIECES = ['a', 'b', 'ab', 'abc', 'c', '/', '/', '/', '/', '1', '12', '-', '.', 'é', '日', 'le', 'end', 'x', 'to', '_', 'A', '\\', 'a\\b', '\\.', '/a/a', '/ed/it/']
NAMES = ['a', 'b', 'c', 'id', 'name', 'x', 'y', 'pth', 'user_1', '_p', 'N', 'query', 'self', 'args', 'kw', 'rule', 'method', 'path', 'anchor', 'anon_id', 'anon', 'anon_0', '_anon']       # (incl. names an API might use for its own keyword parameters)
RE_POOL = ['to.', '[a-c]+', r'\d{2}', '[^/]+', 'pro.+?(?=l)', '(?:ab)+', 'a|ab', '[0-9a-f]{1,3}', '.+', 'a*',
           r'-?\d+', r'-?\d+(\.\d+)?', r'\d+',
           # capturing groups that cover a part of the match, the whole match, repeat, or do not take part: the wildcard is bound to the whole match
           r'v(\d+)', r'[a-z]+(-draft)?', r'(en|de|fr)', r'(ab)+', r'(a)(b)?c', r'(?P<y>\d{4})-\d\d',
           # assertions that look at the text around the cursor: each wildcard's expression sees its own text from the cursor on, nothing before it
           r'^[a-z]+$', r'\B\d+', r'(?<![a-z])\d+', r'\bto.', r'^\d+', r'[a-z]+\b', r'\A[a-c]+']      # the last three are spelled like the masks of the int / float filters (but convert nothing)


RE_VALUES = {'to.': ['tom', 'tos', 'to/', 'tok'], '[a-c]+': ['abc', 'ab', 'a', 'cab'], r'\d{2}': ['12', '07'], '[^/]+': ['tom', 'a b', 'é', '12'],
             'pro.+?(?=l)': ['profi', 'pro/x', 'prol'], '(?:ab)+': ['ab', 'abab'], 'a|ab': ['a'], '[0-9a-f]{1,3}': ['ff', '0', 'a1b'], '.+': ['x', 'a/b'], 'a*': ['a', 'aa'],
             '.+?(?=/end)': ['x', 'a/b'], r'-?\d+': ['42', '-007', '0'], r'-?\d+(\.\d+)?': ['1.50', '3', '-0.0'], r'\d+': ['12', '007']}


REX_POOL = [(r'(a\d+)|(b\d+)', 1), (r'(a\d+)|(b\d+)', 2), ('(png)|(jpg)', 1), ('(png)|(jpg)', 2), ('(x+)|(y+)|(z+)', 3), ('(to.)|(ab)', 1)]
RE_VALUES.update({r'v(\d+)': ['v12', 'v0'], r'[a-z]+(-draft)?': ['spec-draft', 'spec', 'a-draft'], r'(en|de|fr)': ['en', 'fr'], r'(ab)+': ['ab', 'ababab'],
                  r'(a)(b)?c': ['ac', 'abc'], r'(?P<y>\d{4})-\d\d': ['2024-05']})
RE_VALUES.update({r'^[a-z]+$': ['bob', 'tom'], r'\B\d+': ['12', '7'], r'(?<![a-z])\d+': ['12', '007'], r'\bto.': ['tom', 'to/'], r'^\d+': ['42'], r'[a-z]+\b': ['tom', 'ab'],
                  r'\A[a-c]+': ['abc', 'a'], r'(a\d+)|(b\d+)': ['a1', 'b22', 'a07'], '(png)|(jpg)': ['png', 'jpg'], '(x+)|(y+)|(z+)': ['x', 'yy', 'zzz'], '(to.)|(ab)': ['tom', 'ab']})


def merge(ast):
    """Merge adjacent literals, drop empty literals."""
    out = []
    for s in ast:
        if s[0] == 'lit':
            if not s[1]:
                continue
            if out and out[-1][0] == 'lit':
                out[-1] = ['lit', out[-1][1] + s[1]]
                continue
        out.append(list(s))
    return out


def legal(ast):
    """Rules in the domain: start with '/', not with '//', no CR / rule-syntax characters in literals, no trailing '*',
    unique wildcard names."""
    ast = merge(ast)
    if not ast or ast[0][0] != 'lit' or not ast[0][1].startswith('/') or ast[0][1].startswith('//'):
        return False
    names = [s[1] for s in ast if s[0] == 'w' and s[1]]
    if len(set(names)) != len(names):
        return False
    for s in ast:
        if s[0] == 'lit' and any(c in s[1] for c in '\r{<:>}*'):
            return False
    if ast[-1][0] == 'lit' and ast[-1][1].endswith('*'):
        return False
    return True


def following_literal(ast, i):
    return ast[i + 1][1] if i + 1 < len(ast) and ast[i + 1][0] == 'lit' else ''


def wild_regex(seg, tail):
    """The text a filtered wildcard accepts, as a regular expression matched once at the cursor (None = unfiltered)."""
    f, arg = seg[2], seg[3]
    if f is None:
        return None
    if f == 'int':
        return r'-?\d+'
    if f == 'float':
        return r'-?\d+(\.\d+)?'
    if f in ('re', 'rex'):
        return arg
    if f == 'path':
        return '.+(?=%s)' % re.escape(tail) if tail else '.+$'
    raise AssertionError(f)


def convert(seg, text):
    if seg[2] == 'int':
        return int(text)
    if seg[2] == 'float':
        return float(text)
    return text


# ------------------------------------------------------------------ rendering
def _flavours(seg, next_char, spell):
    """All rule-text spellings of one wildcard that denote exactly this segment."""
    name, f, arg = seg[1], seg[2], seg[3]
    outs = []
    colon_ok = next_char in ('/', None)
    if f is None:
        if name:
            outs += ['<%s>' % name, '{%s}' % name]
            if colon_ok:
                outs += [':' + name]
        else:
            # an anonymous unfiltered wildcard can only be written as a bare ':' at the very end of a rule
            if next_char is None:
                outs += [':']
        return outs
    if f in ('int', 'float', 'path'):
        # two spelling classes that the filter cache keeps apart: "no argument list" (0) and "empty argument list" (1);
        # for `path` the argument is always replaced by the literal text that follows, so both classes denote the same filter
        for c in ((0, 1) if f == 'path' else (spell,)):
            if c == 0:
                outs += ['<%s:%s>' % (name, f), '{%s:%s}' % (name, f)] if name else ['<:%s>' % f, '{:%s}' % f]
            else:
                outs += (['<%s.%s()>' % (name, f), '<%s:%s()>' % (name, f), '{%s.%s()}' % (name, f), '{%s:%s()}' % (name, f)] if name
                         else ['<%s()>' % f, '<:%s()>' % f, '{%s()}' % f])
        return outs
    if f == 'rex':
        sel = seg[4]
        if name:
            outs += ['<%s.rex(%s)[%s]>' % (name, arg, sel), '{%s.rex(%s)[%s]}' % (name, arg, sel), '<%s:rex(%s)[%s]>' % (name, arg, sel)]
        else:
            outs += ['<rex(%s)[%s]>' % (arg, sel), '<:rex(%s)[%s]>' % (arg, sel), '{rex(%s)[%s]}' % (arg, sel)]
        return outs
    if f == 're':
        if name:
            outs += ['<%s.re(%s)>' % (name, arg), '<%s:re(%s)>' % (name, arg), '{%s:re(%s)}' % (name, arg), '{%s.re(%s)}' % (name, arg)]
            if '>' not in arg:
                outs += ['<%s:re:%s>' % (name, arg)]
        else:
            outs += ['<re(%s)>' % arg, '<:re(%s)>' % arg, '{re(%s)}' % arg, '{:re(%s)}' % arg]
            if '>' not in arg:
                outs += ['<:re:%s>' % arg]
        return outs
    raise AssertionError(seg)


def render(ast, choice=(), spell=0):
    """Rule text of an AST; `choice` (list of ints, cycled) selects the flavour of each wildcard."""
    ast = merge(ast)
    out = []
    k = 0
    for i, s in enumerate(ast):
        if s[0] == 'lit':
            out.append(s[1])
            continue
        nxt = None
        if i + 1 < len(ast):
            nxt = ast[i + 1][1][0] if ast[i + 1][0] == 'lit' else 'W'
        fl = _flavours(s, nxt, spell)
        if not fl:
            return None
        c = choice[k % len(choice)] if choice else 0
        k += 1
        out.append(fl[c % len(fl)])
    return ''.join(out)


def renderable(ast, spell=0):
    return render(ast, (), spell) is not None


# ------------------------------------------------------------------ reference matcher
def pattern_key(ast):
    """What identifies a route: literal text and wildcard positions with their filters (names do not count)."""
    ast = merge(ast)
    key = []
    for i, s in enumerate(ast):
        if s[0] == 'lit':
            key.append(s[1])
        else:
            key.append(('W', s[2], s[3] if s[2] in ('re', 'rex') else (following_literal(ast, i) if s[2] == 'path' else None)))
            if s[2] == 'rex':
                key.append('#%s' % s[4])         # the selector is literal text of the pattern right after the wildcard
    return tuple(key)


def symbols(ast):
    """Pattern as a sequence of characters and wildcard marks (for the priority rule)."""
    out = []
    for s in merge(ast):
        if s[0] == 'lit':
            out.extend(s[1])
        else:
            out.append(None)
            if s[2] == 'rex':
                out.extend(str(s[4]))
    return out[1:]          # without the leading '/'


def match(ast, path, allow_empty):
    """Match the rule against the stripped path left to right, no backtracking.
    Returns list of (name, bound text, converted value) or None."""
    ast = merge(ast)
    first = ast[0][1][1:]           # the rule's leading '/' is not part of the pattern
    segs = ([['lit', first]] if first else []) + ast[1:]
    i = 0
    out = []
    n = len(path)
    for k, s in enumerate(segs):
        if s[0] == 'lit':
            if not path.startswith(s[1], i):
                return None
            i += len(s[1])
            continue
        tail = segs[k + 1][1] if k + 1 < len(segs) and segs[k + 1][0] == 'lit' else ''
        rx = wild_regex(s, tail)
        if rx is None:
            j = i
            while j < n and path[j] != '/':
                j += 1
            text = path[i:j]
        elif s[2] == 'rex':
            m = re.compile(rx).match(path[i:])
            if not m:
                return None
            g = next((k + 1 for k, v in enumerate(m.groups()) if v is not None), None)
            j = i + m.end()
            if g is None:
                # no group took part: the selector digits must then follow literally in the path (degenerate; pools avoid it)
                if not path.startswith(str(s[4]), j):
                    return None
                out.append((s[1], m.group() + str(s[4]), m.group()))
                i = j + len(str(s[4]))
                continue
            if str(g) != str(s[4]):
                return None
            out.append((s[1], m.group(), m.group(g)))
            i = j
            continue
        else:
            m = re.compile(rx).match(path[i:])
            if not m:
                return None
            text = m.group()
            j = i + m.end()
        if text == '' and not allow_empty:
            return None
        try:
            val = convert(s, text)
        except ValueError:
            return None
        out.append((s[1], text, val))
        i = j
    return out if i == n else None


def _cmp(sa, sb):
    for x, y in zip(sa, sb):
        if x == y:
            continue
        if x is None:
            return 1          # a has the wildcard at the first difference: b wins
        if y is None:
            return -1
        return 0              # two different literals cannot both match; order irrelevant
    return len(sa) - len(sb)


def select(rules, path, allow_empty):
    """rules: list of ASTs (accepted registrations).  Returns (index of the winning rule's first pattern-mate, bindings)
    or None.  Among the rules matching the whole path the one with literal text at the first difference wins."""
    cands = []
    for idx, ast in enumerate(rules):
        b = match(ast, path, allow_empty)
        if b is not None:
            cands.append((idx, b))
    if not cands:
        return None
    best = min(cands, key=functools.cmp_to_key(lambda p, q: _cmp(symbols(rules[p[0]]), symbols(rules[q[0]])) or (p[0] - q[0])))
    return best


def verdict(rules, path):
    """Evaluate under both empty-binding policies.  -> (selected or None, agreed: bool)"""
    strict = select(rules, path, False)
    lenient = select(rules, path, True)
    ks = None if strict is None else pattern_key(rules[strict[0]])
    kl = None if lenient is None else pattern_key(rules[lenient[0]])
    return strict, lenient, ks == kl


def named(bindings):
    return {n: v for n, _, v in bindings if n}


# ------------------------------------------------------------------ generators
def seg_st(rex=False):
    lit = st.sampled_from(LIT_PIECES).map(lambda t: ['lit', t])
    name = st.sampled_from(NAMES) | st.none()
    wild = st.one_of(
        st.tuples(name, st.just(None), st.just(None)), st.tuples(name, st.just(None), st.just(None)),
        st.tuples(name, st.just('int'), st.just(None)), st.tuples(name, st.just('float'), st.just(None)),
        st.tuples(name, st.just('re'), st.sampled_from(RE_POOL)), st.tuples(name, st.just('path'), st.just(None)),
    ).map(lambda t: ['w', t[0], t[1], t[2]])
    rex_wild = st.tuples(name, st.sampled_from(REX_POOL)).map(lambda t: ['w', t[0], 'rex', t[1][0], t[1][1]])
    if rex:
        # rex wildcards are outside the stated domain of C01/C02/C19 (their selector fallback is undocumented): only C11 asks for them
        wild = st.one_of(wild, wild, wild, rex_wild)
    return st.one_of(lit, lit, lit, wild, wild)


def _fix(ast):
    """Make an arbitrary segment list a legal rule: leading '/', unique names."""
    ast = merge(ast)
    if not ast or ast[0][0] != 'lit' or not ast[0][1].startswith('/'):
        ast = merge([['lit', '/']] + ast)
    while ast[0][1].startswith('//'):
        ast[0][1] = ast[0][1][1:]
    # a `path` wildcard takes the literal text after it as its look-ahead: it must be followed by a literal or the end
    i = 0
    while i < len(ast) - 1:
        if ast[i][0] == 'w' and ast[i][2] == 'path' and ast[i + 1][0] == 'w':
            ast.insert(i + 1, ['lit', '/'])
        i += 1
    seen = set()
    for s in ast:
        if s[0] == 'w' and s[1]:
            n = s[1]
            while n in seen:
                n = n + '_'
            s[1] = n
            seen.add(n)
    return ast


@st.composite
def rule_st(draw, max_segs=6, rex=False):
    segs = draw(st.lists(seg_st(rex), min_size=0, max_size=max_segs))
    ast = _fix(segs)
    spell = 0
    for _ in range(6):
        if renderable(ast, spell):
            break
        # an anonymous unfiltered wildcard needs '/' or the end after it: give it a name instead
        for i, s in enumerate(ast):
            if s[0] == 'w' and s[1] is None and s[2] is None:
                s[1] = 'n%d' % i
    return ast


@st.composite
def derived_rule_st(draw, base):
    """A rule sharing structure with `base` (prefix splits, wildcard siblings, same pattern with other names)."""
    ast = [list(s) for s in merge(base)]
    op = draw(st.sampled_from(['extend', 'truncate', 'to_wild', 'to_lit', 'rename', 'refilter', 'split_lit', 'same', 'insert']))
    if op == 'extend':
        ast += draw(st.lists(seg_st(), min_size=1, max_size=3))
    elif op == 'truncate' and len(ast) > 1:
        ast = ast[:draw(st.integers(1, len(ast) - 1))]
    elif op == 'to_wild':
        i = draw(st.integers(0, len(ast) - 1))
        if ast[i][0] == 'lit':
            t = ast[i][1]
            k = draw(st.integers(1, len(t))) if len(t) > 0 else 0
            w = draw(seg_st().filter(lambda s: s[0] == 'w'))
            ast[i:i + 1] = [['lit', t[:k]], w] + ([['lit', '/' + t[k + 1:]]] if draw(st.booleans()) else [])
    elif op == 'to_lit':
        idx = [i for i, s in enumerate(ast) if s[0] == 'w']
        if idx:
            i = draw(st.sampled_from(idx))
            ast[i] = ['lit', draw(st.sampled_from(['tom', '12', 'a', 'ab', 'x', 'to', '1.5']))]
    elif op == 'rename':
        for s in ast:
            if s[0] == 'w':
                s[1] = draw(st.sampled_from(NAMES) | st.none())
    elif op == 'refilter':
        idx = [i for i, s in enumerate(ast) if s[0] == 'w']
        if idx:
            i = draw(st.sampled_from(idx))
            w = draw(seg_st().filter(lambda s: s[0] == 'w'))
            ast[i] = ['w', ast[i][1]] + list(w[2:])
    elif op == 'split_lit':
        idx = [i for i, s in enumerate(ast) if s[0] == 'lit' and len(s[1]) > 1]
        if idx:
            i = draw(st.sampled_from(idx))
            t = ast[i][1]
            k = draw(st.integers(1, len(t) - 1))
            ast[i] = ['lit', t[:k] + draw(st.sampled_from(['x', 'b', '/', 'q/', '-']))]
            ast = ast[:i + 1] + draw(st.lists(seg_st(), max_size=2))
    elif op == 'insert':
        i = draw(st.integers(1, len(ast)))
        ast[i:i] = [draw(seg_st())]
    ast = _fix(ast)
    for _ in range(3):
        if renderable(ast):
            break
        for i, s in enumerate(ast):
            if s[0] == 'w' and s[1] is None and s[2] is None:
                s[1] = 'n%d' % i
    return ast


VALUE_POOL = {
    None: ['tom', '12', 'a', 'ab', 'abc', 'é', 'x.y', '-3', '', 'a b', 'a\rb', 'to', 'le', '日本', '1', 'b', 'e\u0301', '\u2126', 'A\u030a', '\u212b'],
    'int': ['12', '-3', '007', '0', '1', '-0', '99', '5\u00b2', '\u00b2', '\u2460', '\u0663', '\uff15', '1\u00b9', '-\u0661', '+5', '+0', '1+2', ' 7', '1_0', '0x1f'],
    'float': ['1.5', '-2.0', '3', '0.0', '1.', '12.25', '1e3', '+1.5', '.5', '1_0.0', 'inf', 'nan', '-.5'],
    're': ['tom', 'tos', 'to/', 'to', 'abc', 'ab', 'abab', '12', '123', 'profile', 'prol', 'a', 'aa', 'ff', 'x/y', '', '-007', '1.50', '42'],
    'path': ['a/b', 'this/path/to', 'x', 'a', 'end', 'a/end/b', 'le', '', 'x/a/a', 'a/ed/it/x/ed/y', 'a/a/a'],
    'rex': ['a1', 'b22', 'png', 'jpg', 'x', 'yy', 'zzz', 'tom', 'ab', 'a07', 'q'],
}


@st.composite
def path_for(draw, ast):
    """A path built from the rule (values from per-filter pools), possibly edited."""
    out = []
    ast = merge(ast)
    for s in ast:
        if s[0] == 'lit':
            out.append(s[1])
        elif s[2] in ('re', 'rex') and s[3] in RE_VALUES and draw(st.integers(0, 3)):
            out.append(draw(st.sampled_from(RE_VALUES[s[3]])))
        else:
            out.append(draw(st.sampled_from(VALUE_POOL[s[2]])))
    p = ''.join(out)
    if draw(st.integers(0, 99)) < 35 and p:
        k = draw(st.integers(0, len(p)))
        ch = draw(st.sampled_from(list('abc/1-.toé\r+') + ['//', '\n', 'le', '/', '\u00b2', '\u0663', '\u2460', 'w', '_']))
        op = draw(st.sampled_from(['ins', 'del', 'rep']))
        if op == 'ins':
            p = p[:k] + ch + p[k:]
        elif op == 'del':
            p = p[:k] + p[k + 1:]
        else:
            p = p[:k] + ch + p[k + 1:]
    if draw(st.integers(0, 9)) == 0:
        p = draw(st.sampled_from(['/', '//', ''])) + p + draw(st.sampled_from(['/', '//', '']))
    return p if p.startswith('/') else '/' + p
