"""Driving an atheris campaign from a check's thorough tier and turning a crash artefact back into a replayable case."""
import os
import re
import shutil
import subprocess
import sys
import tempfile

from .core import VERIF, REPO, CheckFailure


def available():
    return os.path.isdir(os.path.join(VERIF, '.deps', 'atheris'))


def campaign(ctx, mod, runs, max_len, seeds, label='atheris', timeout=1500):
    """seeds: list of bytes (initial corpus; an empty-corpus campaign is run as well when seeds is empty)."""
    if not available():
        ctx.note('atheris is not installed (.deps missing): coverage-guided campaign skipped, Hypothesis/enumeration only')
        return
    work = tempfile.mkdtemp(prefix=f'verif-fuzz-{ctx.prop}-')
    try:
        corpus = os.path.join(work, 'corpus')
        arte = os.path.join(work, 'artefacts') + os.sep
        os.makedirs(corpus)
        os.makedirs(arte)
        for i, b in enumerate(seeds):
            with open(os.path.join(corpus, f'seed{i:04d}'), 'wb') as f:
                f.write(b)
        seed = (ctx.seed * 1000 + ctx.shard) % (2 ** 31) or 1
        cmd = [sys.executable, os.path.join(VERIF, 'tools', 'fuzz_target.py'), ctx.prop, f'-runs={runs}', f'-seed={seed}', f'-max_len={max_len}',
               f'-artifact_prefix={arte}', '-print_final_stats=1', '-timeout=60', '-rss_limit_mb=4096', corpus]
        env = dict(os.environ, VERIF_REPO=REPO, PYTHONHASHSEED='0')
        try:
            p = subprocess.run(cmd, stdout=subprocess.PIPE, stderr=subprocess.STDOUT, text=True, errors='replace', timeout=timeout, env=env, cwd=VERIF)
            out = p.stdout
        except subprocess.TimeoutExpired as e:
            out = (e.stdout or b'').decode('utf8', 'replace') if isinstance(e.stdout, bytes) else (e.stdout or '')
            ctx.note(f'{label}: campaign stopped by the wall-clock limit ({timeout}s): inconclusive beyond the executions made')
        m = re.search(r'stat::number_of_executed_units:\s*(\d+)', out)
        execs = int(m.group(1)) if m else 0
        cov = re.findall(r'cov: (\d+)', out)
        ctx.evals += execs
        ctx.count(f'{label}_executions', execs)
        if cov:
            ctx.strata[f'{label}_edges_covered'] = max(ctx.strata.get(f'{label}_edges_covered', 0), int(cov[-1]))
        ctx.count(f'{label}_corpus_seeds', len(seeds))
        arts = sorted(os.listdir(arte))
        for a in arts:
            with open(os.path.join(arte, a), 'rb') as f:
                data = f.read()
            if a.startswith(('timeout-', 'oom-', 'slow-unit-')):
                ctx.note(f'{label}: libFuzzer reported {a} ({len(data)} bytes): re-checked by the oracle below')
            case = mod.fuzz_decode(data)
            if case is None:
                continue
            try:
                mod.fuzz_one(ctx, case)
            except CheckFailure as f:
                ctx.record_violation(case, f'(found by the coverage-guided campaign) {f}')
        if arts and not any(a.startswith('crash-') for a in arts):
            pass
        if p.returncode not in (0,) and not arts and 'ERROR' in out:
            ctx.note(f'{label}: fuzzer exited with {p.returncode}: {out[-300:]}')
    finally:
        shutil.rmtree(work, ignore_errors=True)
