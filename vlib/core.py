"""Shared core of the /verif machinery: run context, case codec, violation protocol,
evidence writing, Hypothesis driver.

A check module (checks/cNN_*.py) exposes
    ID, LEVEL, RULE, ASSUMPTIONS
    run(ctx)            -- explore; call ctx.fail(...) / raise CheckFailure on a violation
    replay(ctx, case)   -- run the oracle on one saved case (plain data)
"""
import hashlib
import json
import os
import sys
import time
import traceback

VERIF = os.path.dirname(os.path.dirname(os.path.abspath(__file__)))
REPO = os.environ.get('VERIF_REPO', '/repo')


class CheckFailure(Exception):
    """The property was violated by the case being examined."""

    def __init__(self, msg, kind=None):
        super().__init__(msg)
        self.kind = kind or 'violation'


class Violation(Exception):
    """Raised by the context once a failure has been recorded as a replay file."""


class HarnessError(Exception):
    pass


# --------------------------------------------------------------------- codec
def enc(o):
    """Plain data -> JSON-able (bytes as {"$b": hex}, tuples as lists, sets sorted)."""
    if isinstance(o, (bytes, bytearray)):
        return {'$b': bytes(o).hex()}
    if isinstance(o, dict):
        return {str(k): enc(v) for k, v in o.items()}
    if isinstance(o, (list, tuple)):
        return [enc(v) for v in o]
    if isinstance(o, (set, frozenset)):
        return [enc(v) for v in sorted(o, key=repr)]
    if isinstance(o, float):
        return o
    if isinstance(o, (str, int, bool)) or o is None:
        return o
    return {'$repr': repr(o)}


def dec(o):
    if isinstance(o, dict):
        if set(o) == {'$b'}:
            return bytes.fromhex(o['$b'])
        return {k: dec(v) for k, v in o.items()}
    if isinstance(o, list):
        return [dec(v) for v in o]
    return o


def case_hash(case):
    return hashlib.sha1(json.dumps(enc(case), sort_keys=True, ensure_ascii=True).encode()).hexdigest()


def short(o, limit=400):
    s = json.dumps(enc(o), ensure_ascii=True, sort_keys=True)
    if len(s) <= limit:
        return json.loads(s)
    return {'$truncated': s[:limit]}


# ------------------------------------------------------------------- findings
def load_known_findings(prop):
    """known_findings.txt lines:
         open:  property=Cnn id=<finding id> <what fails>
         fixed: property=Cnn <commit> <what failed>
       Returns {finding id: text} for the open entries of this property."""
    path = os.path.join(VERIF, 'known_findings.txt')
    out = {}
    if not os.path.exists(path):
        return out
    for ln in open(path, encoding='utf8'):
        ln = ln.strip()
        if not ln.startswith('open:'):
            continue
        parts = ln[len('open:'):].split()
        if len(parts) < 2 or parts[0] != f'property={prop}' or not parts[1].startswith('id='):
            continue
        out[parts[1][3:]] = ' '.join(parts[2:])
    return out


# -------------------------------------------------------------------- context
class Ctx:
    def __init__(self, prop, tier, seed, shard=0, nshards=1):
        self.prop = prop
        self.tier = tier
        self.seed = seed
        self.shard = shard
        self.nshards = nshards
        self.evals = 0
        self.strata = {}
        self._nontrivial = set()
        self.samples = []
        self._skeys = []
        self.max_samples = 6
        self.excluded = {}
        self.known_open = load_known_findings(prop)
        self.known_seen = {}
        self.notes = []
        self.last_failure = None
        self.t0 = time.time()
        self.exhaustive = None
        self.violations = 0
        self.budget_s = None

    # -- counters
    def count(self, key, n=1):
        self.strata[key] = self.strata.get(key, 0) + n

    def nontrivial(self, key, sample=None):
        """Register a distinct non-trivial case (key = anything hashable/JSON-able)."""
        if not isinstance(key, (str, bytes, int)):
            key = case_hash(key)
        if isinstance(key, str):
            key = key.encode()
        if isinstance(key, bytes):
            key = int.from_bytes(hashlib.blake2b(key, digest_size=8).digest(), 'big')
        new = key not in self._nontrivial
        self._nontrivial.add(key)
        if new and sample is not None:
            # deterministic pseudo-random sample: keep the cases with the smallest hash keys
            if len(self._skeys) < self.max_samples:
                self._skeys.append(key)
                self.samples.append(short(sample))
            else:
                m = max(self._skeys)
                if key < m:
                    i = self._skeys.index(m)
                    self._skeys[i] = key
                    self.samples[i] = short(sample)
        return new

    def sample(self, obj):
        if len(self.samples) < self.max_samples:
            self.samples.append(short(obj))

    def exclude(self, why, n=1):
        self.excluded[why] = self.excluded.get(why, 0) + n

    def note(self, s):
        if s not in self.notes:
            self.notes.append(s)

    # -- known findings
    def known(self, fid, what=None):
        """A recognised known finding was observed. Returns True if the file lists it as
        open (then the caller treats the case as passing), False otherwise."""
        if fid in self.known_open:
            self.known_seen[fid] = self.known_seen.get(fid, 0) + 1
            return True
        return False

    # -- violations
    def fail(self, case, msg, kind=None):
        self.last_failure = (case, msg)
        raise CheckFailure(msg, kind)

    def record_violation(self, case, msg):
        d = os.path.join(VERIF, 'replays', self.prop)
        os.makedirs(d, exist_ok=True)
        body = {'property': self.prop, 'message': msg, 'case': enc(case), 'seed': self.seed, 'tier': self.tier}
        h = case_hash(case)[:16]
        path = os.path.join(d, f'{h}.json')
        with open(path, 'w') as f:
            json.dump(body, f, indent=1, sort_keys=True)
        self.violations += 1
        print(f'VIOLATION property={self.prop} replay={os.path.relpath(path, VERIF)}', flush=True)
        print('  ' + msg.replace('\n', '\n  ')[:3000], flush=True)
        raise Violation(msg)

    def guarded(self, fn, case):
        """Run oracle fn(case) outside Hypothesis (corpus, witnesses, enumerations)."""
        self.evals += 1
        try:
            fn(self, case)
        except CheckFailure as f:
            self.record_violation(case, str(f))

    def time_left(self):
        if self.budget_s is None:
            return 1e9
        return self.budget_s - (time.time() - self.t0)

    # -- hypothesis
    def hyp(self, strategy, fn, max_examples, label='main', shrink=True):
        """Drive fn(ctx, case) with Hypothesis; on CheckFailure shrink, save a replay file
        and raise Violation."""
        import hypothesis
        from hypothesis import given, settings, HealthCheck, Phase, seed as hseed
        phases = [Phase.generate] + ([Phase.shrink] if shrink else [])
        sd = (self.seed * 1000003 + self.shard * 7919 + int(hashlib.sha1(label.encode()).hexdigest()[:6], 16)) % (2**62)
        ctx = self

        @hseed(sd)
        @settings(max_examples=max_examples, database=None, deadline=None, report_multiple_bugs=False,
                  phases=phases, suppress_health_check=list(HealthCheck), derandomize=False,
                  verbosity=hypothesis.Verbosity.quiet)
        @given(strategy)
        def t(case):
            ctx.evals += 1
            try:
                fn(ctx, case)
            except CheckFailure as f:
                ctx.last_failure = (case, str(f))
                raise

        try:
            t()
        except CheckFailure as f:
            case, msg = self.last_failure
            self.record_violation(case, msg)
        except hypothesis.errors.Flaky as f:
            if self.last_failure:
                case, msg = self.last_failure
                self.record_violation(case, msg + '\n(flaky under shrinking)')
            raise HarnessError(f'hypothesis flaky: {f}')

    # -- stats exchange between shards
    def stats(self):
        return {
            'evals': self.evals, 'strata': self.strata, 'nontrivial': sorted(self._nontrivial),
            'samples': self.samples, 'excluded': self.excluded, 'known_seen': self.known_seen,
            'notes': self.notes, 'exhaustive': self.exhaustive, 'violations': self.violations,
        }

    def merge(self, st):
        self.evals += st['evals']
        for k, v in st['strata'].items():
            self.count(k, v)
        self._nontrivial.update(st['nontrivial'])
        for s in st['samples']:
            if len(self.samples) < self.max_samples:
                self.samples.append(s)
        for k, v in st['excluded'].items():
            self.exclude(k, v)
        for k, v in st['known_seen'].items():
            self.known_seen[k] = self.known_seen.get(k, 0) + v
        for n in st['notes']:
            self.note(n)
        if st.get('exhaustive') is not None:
            self.exhaustive = st['exhaustive'] if self.exhaustive is None else (self.exhaustive and st['exhaustive'])
        self.violations += st.get('violations', 0)

    def write_evidence(self, mod, status):
        cov = {
            'evaluations': self.evals,
            'distinct_nontrivial': len(self._nontrivial),
            'rule': mod.RULE,
            'samples': self.samples,
            'strata': dict(sorted(self.strata.items())),
            'excluded': self.excluded,
            'known_findings_observed': self.known_seen,
            'notes': self.notes,
            'status': status,
            'shards': self.nshards,
            'repo': REPO,
        }
        if self.exhaustive is not None:
            cov['exhaustive'] = bool(self.exhaustive)
        ev = {
            'property_id': self.prop, 'tier': self.tier, 'seed': self.seed, 'level': mod.LEVEL,
            'coverage': cov, 'assumptions': list(getattr(mod, 'ASSUMPTIONS', [])),
            'wall_s': round(time.time() - self.t0, 2), 'violations': self.violations,
        }
        d = os.path.join(VERIF, 'evidence')
        os.makedirs(d, exist_ok=True)
        tmp = os.path.join(d, f'.{self.prop}.json.tmp')
        with open(tmp, 'w') as f:
            json.dump(ev, f, indent=1, sort_keys=True)
        # runs against a scratch copy (sensitivity runs) never overwrite the real evidence
        name = f'{self.prop}.json' if os.path.realpath(REPO) == '/repo' else f'{self.prop}.scratch.json'
        os.replace(tmp, os.path.join(d, name))


def load_corpus(prop):
    d = os.path.join(VERIF, 'corpus', prop)
    out = []
    if os.environ.get('VERIF_SKIP_CORPUS'):
        # only used by tools/run_seeded.py when a seeded change has to be applied to an older commit (before a later fix: commit):
        # the witnesses of defects repaired since then would fire there for a reason that is not the seeded change
        return out
    if os.path.isdir(d):
        for fn in sorted(os.listdir(d)):
            if fn.endswith('.json'):
                with open(os.path.join(d, fn), encoding='utf-8') as f:
                    j = json.load(f)
                out.append((fn, dec(j['case'] if 'case' in j else j)))
    return out


def innermost_repo_frame(exc):
    """(file:line func) of the innermost traceback frame inside the repo's ombott package."""
    tb = exc.__traceback__
    best = None
    while tb is not None:
        fn = tb.tb_frame.f_code.co_filename
        if os.sep + 'ombott' + os.sep in fn and 'verif' not in fn:
            best = f'{os.path.basename(fn)}:{tb.tb_frame.f_code.co_name}'
        tb = tb.tb_next
    return best


def fmt_exc(e):
    try:
        return ''.join(traceback.format_exception(type(e), e, e.__traceback__))[-1500:]
    except Exception:
        return f'{type(e).__name__}: <unprintable>'
