#!/venv/bin/python
"""Single entry point:  run_check.py <Cnn> [--tier quick|thorough] [--replay FILE] [--shards N]

exit 0  property held on everything explored (KNOWN-FINDING lines may have been printed)
exit 1  after printing  VIOLATION property=<id> replay=<path>
exit 2  harness error / inconclusive (never a violation)
"""
import argparse
import importlib
import json
import os
import subprocess
import sys
import tempfile
import time
import traceback

VERIF = os.path.dirname(os.path.abspath(__file__))
REPO = os.environ.get('VERIF_REPO', '/repo')
sys.path.insert(0, VERIF)
sys.path.insert(0, REPO)          # code under test: the repo's current working tree
DEPS = os.path.join(VERIF, '.deps')
if os.path.isdir(DEPS):
    sys.path.append(DEPS)
sys.dont_write_bytecode = True

os.environ.setdefault('TZ', 'UTC')
try:
    time.tzset()
except Exception:
    pass

CHECKS = {
    'C01': 'checks.c01_route_resolution', 'C02': 'checks.c02_methods', 'C03': 'checks.c03_wsgi',
    'C04': 'checks.c04_content_length', 'C05': 'checks.c05_chunked', 'C06': 'checks.c06_multipart_split',
    'C07': 'checks.c07_multipart_roundtrip', 'C08': 'checks.c08_threads', 'C09': 'checks.c09_history',
    'C10': 'checks.c10_apps', 'C11': 'checks.c11_router_history', 'C12': 'checks.c12_malformed',
    'C13': 'checks.c13_limits', 'C14': 'checks.c14_headers', 'C15': 'checks.c15_cookies',
    'C16': 'checks.c16_static_root', 'C17': 'checks.c17_ranges', 'C18': 'checks.c18_query',
    'C19': 'checks.c19_url_build', 'C20': 'checks.c20_error_pages',
}


def main():
    ap = argparse.ArgumentParser()
    ap.add_argument('prop')
    ap.add_argument('--tier', default=os.environ.get('VERIF_TIER') or 'quick', choices=['quick', 'thorough'])
    ap.add_argument('--replay')
    ap.add_argument('--shards', type=int, default=None)
    ap.add_argument('--shard', type=int, default=None)
    ap.add_argument('--stats-out')
    args = ap.parse_args()
    prop = args.prop.upper()
    try:
        seed = int(os.environ.get('VERIF_SEED') or 0)
    except ValueError:
        seed = 0

    # watchdog: a run that exceeds its wall-clock budget is inconclusive (exit 2), never a violation
    import threading
    budget = float(os.environ.get('VERIF_BUDGET_S') or (900 if args.tier == 'quick' else 5400))

    def _expired():
        sys.stdout.write(f'HARNESS-ERROR: {prop} {args.tier}: wall-clock budget of {budget:.0f}s exhausted (inconclusive, not a violation)\n')
        sys.stdout.flush()
        os._exit(2)
    wd = threading.Timer(budget, _expired)
    wd.daemon = True
    wd.start()

    from vlib import core
    ctx = core.Ctx(prop, args.tier, seed)
    try:
        import ombott
        root = os.path.dirname(os.path.dirname(os.path.abspath(ombott.__file__)))
        if os.path.realpath(root) != os.path.realpath(REPO):
            print(f'HARNESS-ERROR: ombott imported from {root}, expected {REPO}')
            return 2
        mod = importlib.import_module(CHECKS[prop])
    except Exception:
        traceback.print_exc()
        print(f'HARNESS-ERROR: cannot import the code under test or the check for {prop}')
        return 2

    # ---------------------------------------------------------------- replay
    if args.replay:
        with open(args.replay, encoding='utf-8') as f:
            j = json.load(f)
        case = core.dec(j['case'] if 'case' in j else j)
        try:
            mod.replay(ctx, case)
        except core.CheckFailure as f:
            print(f'VIOLATION property={prop} replay={args.replay}')
            print('  ' + str(f)[:3000])
            return 1
        print(f'replay of {args.replay}: property held')
        return 0

    # ----------------------------------------------------------- shard child
    if args.shard is not None:
        ctx.shard, ctx.nshards = args.shard, args.shards
        status = 'held'
        rc = 0
        try:
            mod.run(ctx)
        except core.Violation:
            status, rc = 'violation', 1
        except Exception:
            traceback.print_exc()
            status, rc = 'harness-error', 2
        with open(args.stats_out, 'w') as f:
            json.dump(ctx.stats(), f)
        return rc

    # ------------------------------------------------------------- top level
    nshards = args.shards
    if nshards is None:
        nshards = getattr(mod, 'THOROUGH_SHARDS', 16) if args.tier == 'thorough' else getattr(mod, 'QUICK_SHARDS', 1)
    status, rc = 'held', 0
    if nshards <= 1:
        try:
            mod.run(ctx)
        except core.Violation:
            status, rc = 'violation', 1
        except Exception:
            traceback.print_exc()
            print(f'HARNESS-ERROR: {prop} check raised (inconclusive, not a violation)')
            status, rc = 'harness-error', 2
    else:
        ctx.nshards = nshards
        tmpd = tempfile.mkdtemp(prefix=f'verif-{prop}-')
        procs = []
        for i in range(nshards):
            out = os.path.join(tmpd, f's{i}.json')
            cmd = [sys.executable, os.path.abspath(__file__), prop, '--tier', args.tier,
                   '--shard', str(i), '--shards', str(nshards), '--stats-out', out]
            procs.append((i, out, subprocess.Popen(cmd, stdout=subprocess.PIPE, stderr=subprocess.STDOUT, text=True)))
        for i, out, p in procs:
            o, _ = p.communicate()
            if o.strip():
                sys.stdout.write(o if o.endswith('\n') else o + '\n')
            if p.returncode == 1:
                status, rc = 'violation', 1
            elif p.returncode != 0 and rc == 0:
                status, rc = 'harness-error', 2
            try:
                with open(out) as f:
                    ctx.merge(json.load(f))
                os.unlink(out)
            except Exception:
                if rc == 0:
                    status, rc = 'harness-error', 2
        try:
            os.rmdir(tmpd)
        except OSError:
            pass

    # known findings: one line per open finding whose witness still fails
    if rc != 1:
        for fid, n in sorted(ctx.known_seen.items()):
            print(f'KNOWN-FINDING: property={prop} {fid}: {ctx.known_open.get(fid, "")} (observed {n}x)')
    try:
        ctx.write_evidence(mod, status)
    except Exception:
        traceback.print_exc()
        rc = rc or 2
    if rc == 0:
        print(f'{prop} {args.tier}: held on {ctx.evals} cases ({len(ctx._nontrivial)} distinct non-trivial) '
              f'in {time.time() - ctx.t0:.1f}s')
    return rc


if __name__ == '__main__':
    sys.exit(main())
